/* Heap poisoning for the differential builds of C18 (linked with -Wl,--wrap=malloc,--wrap=realloc): every block handed out by malloc,
   and the grown part of a realloc, is filled with POISON_FILL, so that any output that depends on uninitialised heap memory differs
   between the builds. */
#include <stdlib.h>
#include <string.h>
#include <malloc.h>
#ifndef POISON_FILL
#define POISON_FILL 0xA5
#endif
void *__real_malloc(size_t);
void *__real_realloc(void *, size_t);
void *__wrap_malloc(size_t n) { void *p = __real_malloc(n); if (p) memset(p, POISON_FILL, n); return p; }
void *__wrap_realloc(void *old, size_t n) {
  size_t was = old ? malloc_usable_size(old) : 0; void *p = __real_realloc(old, n);
  if (p && n > was) memset((char *)p + was, POISON_FILL, n - was);
  return p;
}
