// Stateful seek/read histories against a model (shared by C07 and C08).
//   mode 7: after any successful seek, audio read == ground truth at the reported position, tell advances by samples returned
//   mode 8: seeks reach every valid target and land where the API says; out-of-range arguments rejected without disturbance
//   mode 20: mode 7 + mode 8 with ov_halfrate toggles in the history; audio is compared with the half-rate packet-level decode
#pragma once
#include "vfmodel.h"
#include <algorithm>

struct SeekTargets {
  std::vector<int64_t> samples;     // interesting global sample positions
  std::vector<int64_t> bytes;       // interesting byte offsets
  std::vector<std::vector<int64_t>> page_gp;   // per link: global positions of page ends (granulepos of audio pages, != -1)
};

static inline void make_targets(const Chain &c, const GT &g, SeekTargets &st) {
  st.page_gp.assign(c.links.size(), {});
  st.samples = {0, g.total};
  for (size_t l = 0; l < c.links.size(); l++) { st.samples.push_back(g.start[l]); st.samples.push_back(g.start[l] + g.len[l]); }
  for (size_t i = 0; i < c.pages.size(); i++) {
    const PageInfo &p = c.pages[i];
    st.bytes.push_back(p.offset); st.bytes.push_back(p.offset + p.len / 2); st.bytes.push_back(p.offset + p.len - 1);
    if (p.last_completed_pkt >= 3 && p.granulepos >= 0) { int64_t gp = g.start[p.link] + std::min<int64_t>(std::max<int64_t>(p.granulepos - c.links[p.link].gp_offset, 0), g.len[p.link]); st.page_gp[p.link].push_back(gp); st.samples.push_back(gp); }
  }
  st.bytes.push_back(0); st.bytes.push_back((int64_t)c.bytes.size());
  // packet boundaries: cumulative sample counts (each packet completes (prev+cur)/4 samples)
  for (size_t l = 0; l < c.links.size(); l++) {
    vorbis_info vi; vorbis_comment vc; vorbis_info_init(&vi); vorbis_comment_init(&vc);
    for (int i = 0; i < 3; i++) { ogg_packet op; c.links[l].hdr[i].to_ogg(op); vorbis_synthesis_headerin(&vi, &vc, &op); }
    int64_t acc = 0; int prev = 0; size_t step = std::max<size_t>(1, c.links[l].audio.size() / 12);
    for (size_t k = 0; k < c.links[l].audio.size(); k++) { ogg_packet op; c.links[l].audio[k].to_ogg(op); int b = (int)vorbis_packet_blocksize(&vi, &op); if (prev) acc += (prev + b) / 4; prev = b; if (k % step == 0 && acc <= g.len[l]) st.samples.push_back(g.start[l] + acc); }
    vorbis_comment_clear(&vc); vorbis_info_clear(&vi);
  }
}

struct SeekRun {
  Tape &t; Report &r; int mode;
  Chain c; GT g; std::vector<LinkMeta> meta; std::string desc; SeekTargets st;
  MemSrc ms; OggVorbis_File vf; bool open = false;
  int64_t pos = 0;            // model position
  std::string hist;           // op history (for messages / samples)
  int seeks_ok = 0, reads_after_seek = 0, calls = 0; bool last_was_seek = false; bool any_nontrivial = false;
  std::vector<double> tstart;  // time at start of each link (as the library sums it)
  int hs = 0;                  // model of the half-rate flag (mode 20)
  bool refuses = false;        // mode 20: some link has 64-sample short blocks, so half rate must be refused
  bool relaxed = false;        // mode 20: an interior link has odd length -> positions may be off by one after crossing it (DESIGN 3.21)
  int toggles = 0, toggles_after_read = 0; bool did_read = false; bool toggle_seek_read = false; int stage = 0;
  SeekRun(Tape &t_, Report &r_, int m) : t(t_), r(r_), mode(m) {}
  ~SeekRun() { if (open) ov_clear(&vf); }

  bool do_open() {
    if (open) { ov_clear(&vf); open = false; }
    ms = MemSrc(); ms.data = &c.bytes; ms.read_mode = t.below(4) == 3 ? 2 : 0; ms.sched = Bulk(t.raw() | 1); ms.budget = vf_budget(c); ms.mark();
    int orr = ov_open_callbacks(&ms, &vf, NULL, 0, ms_callbacks(true));
    if (orr != 0) return r.fail("ov_open_callbacks=%d on an intact file [%s]", orr, desc.c_str());
    open = true; pos = 0; hs = 0;
    if (ov_pcm_total(&vf, -1) != g.total) return r.fail("ov_pcm_total=%lld, expected %lld (C09 territory) [%s]", (long long)ov_pcm_total(&vf, -1), (long long)g.total, desc.c_str());
    return true;
  }
  int64_t pick_sample() {
    if (t.chance(1, 2)) { int64_t v = st.samples[t.spread((uint32_t)st.samples.size())] + (int64_t)t.below(3) - 1; return std::min(std::max<int64_t>(v, 0), g.total); }
    return (int64_t)t.spread((uint32_t)std::min<int64_t>(g.total + 1, 0x7fffffff));
  }
  int64_t pick_byte() {
    int64_t sz = (int64_t)c.bytes.size();
    if (t.chance(2, 3)) { int64_t v = st.bytes[t.spread((uint32_t)st.bytes.size())] + (int64_t)t.below(3) - 1; return std::min(std::max<int64_t>(v, 0), sz); }
    return (int64_t)t.spread((uint32_t)(sz + 1));
  }
  // link that ov_time_seek / ov_pcm_seek_page select for a global sample position (highest link with start <= p)
  int link_for_seek(int64_t p) const { int l = (int)g.len.size() - 1; while (l > 0 && g.start[l] > p) l--; return l; }
  double time_of(int64_t p, int &l) const { l = g.link_of(p); if (l < 0) l = (int)g.len.size() - 1; return tstart[l] + (double)(p - g.start[l]) / (double)c.links[l].rate; }

  bool check_tell_consistency(const char *after) {
    int64_t tl = ov_pcm_tell(&vf);
    // every odd-length link read through at half rate delivers ceil(N/2) samples and so leaves the running position one ahead until the next
    // granule fencepost: the drift is bounded by the number of odd-length links before the current one
    int odd_before = 0; { int lc = g.link_of(pos); if (lc < 0) lc = (int)g.len.size(); for (int l = 0; l < lc; l++) odd_before += (int)(g.len[l] & 1); }
    if (relaxed && hs && tl != pos && tl - pos >= -1 && tl - pos <= std::max(1, odd_before)) { r.label("half rate: tell off by one after an odd-length interior link (tolerated)"); return true; }
    if (tl != pos) return r.fail("ov_pcm_tell=%lld, model position %lld after %s [hist %s] [%s]", (long long)tl, (long long)pos, after, hist.c_str(), desc.c_str());
    // time tell: same position expressed in seconds
    int l = (int)g.len.size() - 1; while (l > 0 && g.start[l] > pos) l--;
    double want = tstart[l] + (double)(pos - g.start[l]) / (double)c.links[l].rate, got = ov_time_tell(&vf);
    if (fabs(got - want) > 1e-9 * (1 + fabs(want)) + 0.5 / (double)c.links[l].rate * 1e-6) return r.fail("ov_time_tell=%.12g, position %lld is %.12g s after %s [hist %s] [%s]", got, (long long)pos, want, after, hist.c_str(), desc.c_str());
    int64_t rt = ov_raw_tell(&vf);
    if (rt < 0 || rt > (int64_t)c.bytes.size()) return r.fail("ov_raw_tell=%lld outside the file after %s [%s]", (long long)rt, after, desc.c_str());
    return true;
  }
  // float read of up to req samples, verified against ground truth at the model position
  bool do_read(int req, bool &eof) {
    float **pcm; int bs = -7; ms.mark();
    long n = ov_read_float(&vf, &pcm, req, &bs); eof = false;
    hist += sfmt("rf(%d)=%ld ", req, n);
    if (n < 0) return r.fail("ov_read_float returned %ld at position %lld on an intact file [hist %s] [%s]", n, (long long)pos, hist.c_str(), desc.c_str());
    if (n == 0) {
      eof = true;
      if (hs && relaxed && pos < g.total && g.link_of(pos) == (int)g.len.size() - 1 && g.total - pos <= 1) { r.label("half rate: EOF one short after odd interior link (tolerated)"); return true; }
      if (pos < g.total) { // EOF is only right when nothing follows
        return r.fail("ov_read_float reports end of file at position %lld of %lld [hist %s] [%s]", (long long)pos, (long long)g.total, hist.c_str(), desc.c_str());
      }
      return true;
    }
    if (n > req) return r.fail("ov_read_float returned %ld > requested %d [%s]", n, req, desc.c_str());
    std::string why; vorbis_info *vi = ov_info(&vf, -1);
    // after reading through an odd-length interior link at half rate the running position is one ahead of the next link's first sample
    if (hs && relaxed) { int l0 = g.link_of(pos); if (l0 < 0 || ((pos - g.start[l0]) & 1)) { int l1 = g.link_of(pos - 1); if (l1 >= 0 && !((pos - 1 - g.start[l1]) & 1)) pos -= 1; } }
    if (!gt_compare(g, pos, pcm, n, bs, vi ? vi->channels : -1, why, hs)) return r.fail("%s [hist %s] [%s]", why.c_str(), hist.c_str(), desc.c_str());
    pos += n << hs; did_read = true;
    if (stage == 2) { toggle_seek_read = true; }
    if (last_was_seek) { reads_after_seek++; if (calls >= 2) any_nontrivial = true; }
    last_was_seek = false;
    return check_tell_consistency("ov_read_float");
  }
  bool do_read_int(int len) {
    if (hs && relaxed) { bool eof; return do_read(len / 4 + 1, eof); }
    int l = g.link_of(pos); int ch = l >= 0 ? (int)g.pcm[l].size() : 1;
    std::vector<char> buf((size_t)len + 4, 0x5a); int bs = -7; ms.mark();
    long n = ov_read(&vf, buf.data(), len, 0, 2, 1, &bs);
    hist += sfmt("ri(%d)=%ld ", len, n);
    if (l < 0) { if (n != 0) return r.fail("ov_read returned %ld at end of file [hist %s] [%s]", n, hist.c_str(), desc.c_str()); return true; }
    if (len < 2 * ch) { if (n != OV_EINVAL) return r.fail("ov_read with a %d-byte buffer (frame is %d bytes) returned %ld [hist %s] [%s]", len, 2 * ch, n, hist.c_str(), desc.c_str()); return check_tell_consistency("refused ov_read"); }
    if (n <= 0) return r.fail("ov_read returned %ld at position %lld of %lld [hist %s] [%s]", n, (long long)pos, (long long)g.total, hist.c_str(), desc.c_str());
    if (n % (2 * ch) || n > len) return r.fail("ov_read returned %ld bytes (frame %d, buffer %d) [%s]", n, 2 * ch, len, desc.c_str());
    if (bs != l) return r.fail("ov_read *bitstream=%d, position %lld is in link %d [hist %s] [%s]", bs, (long long)pos, l, hist.c_str(), desc.c_str());
    long frames = n / (2 * ch); int64_t off = pos - g.start[l];
    const PCM &ref = hs ? g.half[l] : g.pcm[l];
    if (hs) { if (off & 1) return r.fail("half-rate position %lld off link %d's grid [hist %s] [%s]", (long long)pos, l, hist.c_str(), desc.c_str()); off >>= 1; }
    if (off + frames > (int64_t)ref[0].size()) return r.fail("ov_read ran past the end of link %d [hist %s] [%s]", l, hist.c_str(), desc.c_str());
    for (long i = 0; i < frames; i++) for (int q = 0; q < ch; q++) {
      int16_t v; memcpy(&v, &buf[(size_t)(i * ch + q) * 2], 2);
      double x = (double)ref[q][off + i] * 32768.0; if (x > 32767) x = 32767; if (x < -32768) x = -32768;
      if (fabs((double)v - x) > 1.0) return r.fail("ov_read sample %ld ch %d = %d, float output %.3f [hist %s] [%s]", i, q, v, x, hist.c_str(), desc.c_str());
    }
    pos += frames << hs; last_was_seek = false; did_read = true;
    return check_tell_consistency("ov_read");
  }

  // expected landing for page-granularity seek to global p: [b, p], b = largest page-end position strictly below p within the link, else link start
  void page_bounds(int64_t p, int64_t &lo, int64_t &hi) {
    int l = link_for_seek(p); lo = g.start[l]; hi = p;
    for (int64_t gp : st.page_gp[l]) if (gp < p && gp > lo) lo = gp;
    // Finding D20 (fixed in fc41172; the exclusion below is inert unless known_findings.json lists it as open again): when the page that ends at that boundary only completes a packet begun on an earlier page,
    // ov_pcm_seek_page falls back to a raw seek one page earlier and lands up to one more page boundary early.
    // While D20 is open the trigger region is excluded by construction: the lower bound moves two boundaries back (counted).
    if (kf_open("D20")) {
      const PageInfo *best = nullptr;
      for (auto &pg : c.pages) if (pg.link == l && pg.last_completed_pkt >= 3 && pg.granulepos >= 0 && g.start[l] + std::min<int64_t>(std::max<int64_t>(pg.granulepos - c.links[l].gp_offset, 0), g.len[l]) < p) best = &pg;
      if (best && (best->flags & 1) && best->last_completed_pkt == best->first_pkt) {
        int64_t b1 = g.start[l], b2 = g.start[l];   // b1: largest boundary < lo, b2: largest boundary < b1
        for (int64_t gp : st.page_gp[l]) if (gp < lo && gp > b1) b1 = gp;
        for (int64_t gp : st.page_gp[l]) if (gp < b1 && gp > b2) b2 = gp;
        lo = b2; r.exclude("D20");
      }
    }
  }

  // half rate: largest position <= p on the sample grid of the link that a seek to p selects
  int64_t grid_floor(int64_t p) const { int l = link_for_seek(p); return g.start[l] + ((p - g.start[l]) & ~(int64_t)1); }
  bool do_toggle(int flag) {
    hist += sfmt("halfrate(%d)", flag); ms.mark();
    int ret = ov_halfrate(&vf, flag);
    if (refuses && flag) {   // a link has 64-sample short blocks: refused, full-rate decoding intact at the same position
      hist += sfmt("=%d ", ret); r.label("op halfrate refused (64-sample blocks)");
      if (ret != OV_EINVAL) return r.fail("ov_halfrate(1) returned %d on a file with a 64-sample-block link (expected OV_EINVAL) [hist %s] [%s]", ret, hist.c_str(), desc.c_str());
      if (ov_halfrate_p(&vf) != 0) return r.fail("ov_halfrate_p=%d after a refused ov_halfrate(1) [hist %s] [%s]", ov_halfrate_p(&vf), hist.c_str(), desc.c_str());
      if (ov_pcm_tell(&vf) != pos) return r.fail("a refused ov_halfrate(1) moved the position from %lld to %lld [hist %s] [%s]", (long long)pos, (long long)ov_pcm_tell(&vf), hist.c_str(), desc.c_str());
      last_was_seek = true; return true;   // the next read must be the full-rate audio at pos
    }
    if (ret != 0) return r.fail("ov_halfrate(%d) returned %d on a file without 64-sample blocks [hist %s] [%s]", flag, ret, hist.c_str(), desc.c_str());
    if (ov_halfrate_p(&vf) != (flag ? 1 : 0)) return r.fail("ov_halfrate_p=%d after ov_halfrate(%d) [hist %s] [%s]", ov_halfrate_p(&vf), flag, hist.c_str(), desc.c_str());
    int64_t T = ov_pcm_tell(&vf); hist += sfmt("->%lld ", (long long)T);
    int64_t lo = pos, hi = pos;
    if (flag) lo = pos <= g.total ? grid_floor(pos) : g.total - 1;
    else if (pos > g.total) { lo = g.total; hi = pos; }           // half-rate end of an odd-length file is total+1; full rate cannot express it
    if (relaxed) { lo -= 1; hi += 1; }
    if (T < lo || T > hi) return r.fail("ov_halfrate(%d) at position %lld left ov_pcm_tell=%lld (allowed [%lld,%lld]) [hist %s] [%s]", flag, (long long)pos, (long long)T, (long long)lo, (long long)hi, hist.c_str(), desc.c_str());
    if (ov_pcm_total(&vf, -1) != g.total) return r.fail("ov_pcm_total=%lld after ov_halfrate(%d), expected %lld [%s]", (long long)ov_pcm_total(&vf, -1), flag, (long long)g.total, desc.c_str());
    toggles++; if (did_read) { toggles_after_read++; stage = 1; }
    r.label(flag ? "op halfrate on" : "op halfrate off"); if (did_read) r.label(flag ? "halfrate on after a read" : "halfrate off after a read");
    hs = flag ? 1 : 0; pos = T; last_was_seek = true;    // the audio that follows must be the reference at T
    return true;
  }

  bool after_seek(const char *name, int ret, int64_t target, bool page_gran, int64_t tlo, int64_t thi) {
    // common: C07 takes tell as the truth for subsequent audio; C08 checks where it landed
    if (ret != 0) {
      if (mode == 8 || mode == 20) return r.fail("%s returned %d for an in-range target [hist %s] [%s]", name, ret, hist.c_str(), desc.c_str());
      // mode 7: property speaks about successful seeks only; a failed seek leaves an undefined position -> reopen
      r.label("seek failed (mode 7: reopen)");
      return do_open();
    }
    int64_t T = ov_pcm_tell(&vf);
    if (T < 0 || T > g.total) return r.fail("after %s ov_pcm_tell=%lld outside [0,%lld] [hist %s] [%s]", name, (long long)T, (long long)g.total, hist.c_str(), desc.c_str());
    if (mode == 8 || mode == 20) {
      if (hs && !page_gran) { tlo = grid_floor(tlo); thi = grid_floor(thi); }
      if (hs && relaxed) { tlo -= 1; thi += 1; }
      if (T < tlo || T > thi) return r.fail("%s(target %lld) landed at %lld, allowed [%lld,%lld] [hist %s] [%s]", name, (long long)target, (long long)T, (long long)tlo, (long long)thi, hist.c_str(), desc.c_str());
    }
    pos = T; seeks_ok++; last_was_seek = true; if (stage == 1) stage = 2;
    hist += sfmt("->%lld ", (long long)T);
    if (!check_tell_consistency(name)) return false;
    if ((mode == 8 || (mode == 20 && !hs)) && !page_gran && target == g.total) {   // a sample seek to L yields end of file on the next read
      float **pcm; int bs; long n = ov_read_float(&vf, &pcm, 1024, &bs);
      if (n != 0) return r.fail("read after %s(L) returned %ld instead of end of file [hist %s] [%s]", name, n, hist.c_str(), desc.c_str());
      r.label("seek to L then EOF");
    }
    return true;
  }

  // Exhaustive arm: on a small chain, from several prior states, a sample-accurate seek to EVERY position 0..L and a raw seek to EVERY
  // byte offset, each followed by a verified read (C07: audio at the reported position; C08: landing exactly at the target).
  bool sweep() {
    ChainOpts o; o.maxlinks = 3; o.maxN = 1200; o.comments = false; o.vgen_pct = 60; o.vgen_64_pct = 40; o.maxch = 3;
    if (!gen_chain(t, r, o, c, g, meta, desc)) return false;
    if (g.total > 6000 || c.bytes.size() > 60000) { r.label("sweep skipped: chain too large"); return true; }
    make_targets(c, g, st); tstart.clear(); { double acc = 0; for (size_t l = 0; l < c.links.size(); l++) { tstart.push_back(acc); acc += (double)g.len[l] / (double)c.links[l].rate; } }
    if (!do_open()) return false;
    int prior = (int)t.below(4); bool byraw = t.chance(1, 3); desc += sfmt(" SWEEP prior=%d %s", prior, byraw ? "raw" : "pcm");
    int64_t limit = byraw ? (int64_t)c.bytes.size() : g.total;
    for (int64_t p = 0; p <= limit; p++) {
      hist.clear(); bool eof;
      // re-establish the prior state before every target
      if (prior == 1) { if (ov_pcm_seek(&vf, 0)) return r.fail("ov_pcm_seek(0) failed [%s]", desc.c_str()); pos = 0; last_was_seek = false; if (!do_read(100, eof)) return false; }
      else if (prior == 2) { if (ov_pcm_seek(&vf, g.total)) return r.fail("ov_pcm_seek(L) failed [%s]", desc.c_str()); pos = g.total; last_was_seek = false; if (!do_read(64, eof)) return false; }
      else if (prior == 3) { int64_t b = (int64_t)c.bytes.size() / 2; if (ov_raw_seek(&vf, b)) return r.fail("ov_raw_seek(mid) failed [%s]", desc.c_str()); pos = ov_pcm_tell(&vf); last_was_seek = false; }
      calls = 2;
      if (byraw) { hist += sfmt("raw_seek(%lld)", (long long)p); int ret = ov_raw_seek(&vf, p); if (!after_seek("ov_raw_seek", ret, p, true, 0, g.total)) return false; }
      else { hist += sfmt("pcm_seek(%lld)", (long long)p); int ret = ov_pcm_seek(&vf, p); if (!after_seek("ov_pcm_seek", ret, p, false, p, p)) return false; }
      if (!open) continue;
      if (!do_read(48, eof)) return false;
    }
    r.label(byraw ? "exhaustive raw-seek sweep over every byte offset" : "exhaustive sample-seek sweep over every position"); r.label(sfmt("sweep prior state %d", prior));
    r.metric_max(byraw ? "byte offsets swept in one case" : "sample positions swept in one case", (double)limit + 1);
    r.nontriv(fnv1a(desc.data(), desc.size())); if (r.want_sample()) r.sample(desc + sfmt(" targets=%lld", (long long)limit + 1));
    return true;
  }

  bool run() {
    if (mode != 20 && g_tape_gen >= 3) { const char *tier = getenv("VERIF_TIER_RUN"); int den = tier && !strcmp(tier, "thorough") ? 6 : 150; if (t.chance(1, (uint32_t)den)) return sweep(); }
    ChainOpts o; o.maxlinks = 4; o.maxN = 40000; o.comments = false; o.vgen_pct = 35; o.gp_offset_pct = 8;
    if (mode == 20) { o.half = true; o.even_interior = !t.chance(1, 6); o.maxlinks = 3; o.maxN = 30000; o.vgen_64_pct = 10; o.vgen_min_bslog = 7; }
    if (!gen_chain(t, r, o, c, g, meta, desc)) return false;
    make_targets(c, g, st);
    tstart.clear(); { double acc = 0; for (size_t l = 0; l < c.links.size(); l++) { tstart.push_back(acc); acc += (double)g.len[l] / (double)c.links[l].rate; } }
    double duration = tstart.back() + (double)g.len.back() / (double)c.links.back().rate;
    if (getenv("VERIF_VERBOSE")) {
      fprintf(stderr, "%s\n", desc.c_str());
      for (size_t i = 0; i < c.pages.size(); i++) fprintf(stderr, "page %zu link %d off %lld len %d gp %lld flags %d pkts %d..%d\n", i, c.pages[i].link, (long long)c.pages[i].offset, c.pages[i].len, (long long)c.pages[i].granulepos, c.pages[i].flags, c.pages[i].first_pkt, c.pages[i].last_completed_pkt);
      for (size_t l = 0; l < c.links.size(); l++) fprintf(stderr, "link %zu bytes %lld..%lld samples %lld..%lld\n", l, (long long)c.link_start[l], (long long)c.link_end[l], (long long)g.start[l], (long long)(g.start[l] + g.len[l]));
    }
    if (!do_open()) return false;
    r.label(sfmt("links=%zu", c.links.size()));
    if (mode == 20) {
      for (size_t l = 0; l + 1 < c.links.size(); l++) if (g.len[l] & 1) relaxed = true;
      if (relaxed) r.label("odd-length interior link (relaxed position checks)");
      for (size_t l = 0; l < c.links.size(); l++) if (c.links[l].bs0 <= 64) refuses = true;
      if (refuses) r.label("chain with a 64-sample-block link");
      for (size_t l = 0; l < c.links.size() && !refuses; l++) { int64_t hl = g.half[l].empty() ? 0 : (int64_t)g.half[l][0].size(); if (hl != (g.len[l] + 1) / 2) return r.fail("link %zu of length %lld decodes to %lld samples at half rate, expected %lld [%s]", l, (long long)g.len[l], (long long)hl, (long long)((g.len[l] + 1) / 2), desc.c_str()); }
      if (t.chance(1, 2)) { if (!do_toggle(1)) return false; r.label("halfrate on before first read"); }
    }
    int nops = 1 + t.below(24);
    for (int i = 0; i < nops; i++) {
      int op = mode == 20 ? t.weighted({5, 4, 2, 2, 2, 1, 2, 1, 1, 1, 4}) : t.weighted({5, 4, 3, 2, 2, 2, 2, 1, 1, 2});
      calls++;
      ms.mark();
      switch (op) {
        case 0: { bool eof; if (!do_read(1 + (int)t.below(5000), eof)) return false; } break;
        case 1: {   // ov_pcm_seek
          int64_t p = pick_sample(); hist += sfmt("pcm_seek(%lld)", (long long)p);
          int ret = ov_pcm_seek(&vf, p); r.label("op pcm_seek");
          if (!after_seek("ov_pcm_seek", ret, p, false, p, p)) return false; } break;
        case 2: {   // ov_raw_seek
          int64_t b = pick_byte(); hist += sfmt("raw_seek(%lld)", (long long)b);
          int ret = ov_raw_seek(&vf, b); r.label("op raw_seek");
          for (size_t pi = 0; pi < c.pages.size(); pi++) if (b > c.pages[pi].offset && b < c.pages[pi].offset + c.pages[pi].len && is_last_page_of_link(c, pi)) r.label("raw seek inside last page of a link");
          if (!after_seek("ov_raw_seek", ret, b, true, 0, g.total)) return false; } break;
        case 3: {   // ov_pcm_seek_page
          int64_t p = pick_sample(); int64_t lo, hi; page_bounds(p, lo, hi); hist += sfmt("pcm_seek_page(%lld)", (long long)p);
          int ret = ov_pcm_seek_page(&vf, p); r.label("op pcm_seek_page");
          if (!after_seek("ov_pcm_seek_page", ret, p, true, lo, hi)) return false; } break;
        case 4: case 5: {   // ov_time_seek / ov_time_seek_page
          int64_t p = pick_sample(); if (p >= g.total) p = g.total > 0 ? g.total - 1 : 0;
          if (g.total == 0) { r.label("time seek skipped: empty file"); break; }
          int l; double ts = time_of(p, l); double frac = t.below(4) / 4.0; ts += frac / (double)c.links[l].rate;
          if (ts >= duration) ts = time_of(p, l);
          // the library converts: link = first with ts < tstart+len/rate ; target = start + (ts - tstart)*rate (truncated)
          int ll = 0; { double acc = 0; for (ll = 0; ll < (int)c.links.size(); ll++) { double add = (double)g.len[ll] / (double)c.links[ll].rate; if (ts < acc + add) break; acc += add; } }
          if (ll >= (int)c.links.size()) { r.label("time target rounds to the end: skipped"); break; }
          long double exact = (long double)g.start[ll] + ((long double)ts - (long double)tstart[ll]) * (long double)c.links[ll].rate;
          // 'within one sample of t*rate'; t*rate itself is only defined up to the rounding of a double-precision product (1e-6 sample slack)
          int64_t tlo = (int64_t)ceill(exact - 1 - 1e-6L), thi = (int64_t)floorl(exact + 1 + 1e-6L); if (tlo < 0) tlo = 0; if (thi > g.total) thi = g.total;
          if (op == 4) { hist += sfmt("time_seek(%.9g)", ts); int ret = ov_time_seek(&vf, ts); r.label("op time_seek"); if (!after_seek("ov_time_seek", ret, (int64_t)exact, false, tlo, thi)) return false; }
          else {
            // page granularity: at or before the target (+1 sample of conversion slack), not earlier than the last page boundary strictly before it
            int64_t lo, hi, lo2, hi2; page_bounds(tlo, lo, hi); page_bounds(thi, lo2, hi2);
            hist += sfmt("time_seek_page(%.9g)", ts); int ret = ov_time_seek_page(&vf, ts); r.label("op time_seek_page");
            if (!after_seek("ov_time_seek_page", ret, (int64_t)exact, true, std::min(lo, lo2), thi)) return false;
          }
        } break;
        case 6: { if (!do_read_int((int)t.below(t.chance(1, 4) ? 12 : 9000))) return false; r.label("op ov_read"); } break;
        case 7: {   // read to the end
          bool eof = false; long guard = 0; while (!eof) { if (!do_read(4096, eof)) return false; if (++guard > 100000) return r.fail("read loop does not end [%s]", desc.c_str()); }
          if (pos != g.total && !(hs && pos == g.total + 1) && !(hs && relaxed && llabs(pos - g.total) <= 1)) return r.fail("end of file reported at %lld of %lld [hist %s] [%s]", (long long)pos, (long long)g.total, hist.c_str(), desc.c_str());
          r.label("op read-to-end"); } break;
        case 8: { hist += "reopen "; if (!do_open()) return false; r.label("op reopen"); } break;
        case 10: { if (!do_toggle(hs ? (t.chance(1, 4) ? 1 : 0) : (t.chance(1, 4) ? 0 : 1))) return false; } break;
        case 9: {   // out-of-range arguments: rejected, position undisturbed
          int which = t.below(7); int ret = 0; const char *nm = "";
          int64_t big = g.total + 1 + (int64_t)t.below(1000); int64_t neg = -1 - (int64_t)t.below(1000);
          switch (which) {
            case 0: nm = "ov_pcm_seek(>L)"; ret = ov_pcm_seek(&vf, big); break;
            case 1: nm = "ov_pcm_seek(<0)"; ret = ov_pcm_seek(&vf, neg); break;
            case 2: nm = "ov_pcm_seek_page(>L)"; ret = ov_pcm_seek_page(&vf, big); break;
            case 3: nm = "ov_time_seek(<0)"; ret = ov_time_seek(&vf, -0.001 - t.below(100)); break;
            case 4: nm = "ov_time_seek(>duration)"; ret = ov_time_seek(&vf, duration + 0.001 + t.below(100)); break;
            case 5: nm = "ov_raw_seek(>size)"; ret = ov_raw_seek(&vf, (int64_t)c.bytes.size() + 1 + t.below(1000)); break;
            case 6: nm = "ov_raw_seek(<0)"; ret = ov_raw_seek(&vf, neg); break;
          }
          hist += sfmt("%s=%d ", nm, ret); r.label("op out-of-range seek");
          if (ret == 0) return r.fail("%s accepted [hist %s] [%s]", nm, hist.c_str(), desc.c_str());
          if (!check_tell_consistency(nm)) return false;
          bool eof; if (!do_read(1 + (int)t.below(3000), eof)) return false;
        } break;
      }
      // after a seek, usually verify immediately with a read
      if (last_was_seek && t.below(4) != 3) { bool eof; if (!do_read(1 + (int)t.below(6000), eof)) return false; if (t.below(2)) { if (!do_read(1 + (int)t.below(6000), eof)) return false; } }
    }
    // the link table reads the same wherever the history left the handle (C09's table, re-read after arbitrary seeks)
    if (ov_streams(&vf) != (long)c.links.size()) return r.fail("ov_streams=%ld after the history, file has %zu links [hist %s] [%s]", ov_streams(&vf), c.links.size(), hist.c_str(), desc.c_str());
    for (size_t l = 0; l < c.links.size(); l++) {
      vorbis_info *vi = ov_info(&vf, (int)l);
      if (!vi || vi->channels != c.links[l].channels || vi->rate != c.links[l].rate) return r.fail("after the history ov_info(%zu) reports %d channels at %ld Hz, the link has %d at %ld [hist %s] [%s]", l, vi ? vi->channels : -1, vi ? vi->rate : -1L, c.links[l].channels, c.links[l].rate, hist.c_str(), desc.c_str());
      if (ov_serialnumber(&vf, (int)l) != (long)c.links[l].serial || ov_pcm_total(&vf, (int)l) != g.len[l]) return r.fail("after the history link %zu reads serial %ld length %lld, the link has %d / %lld [hist %s] [%s]", l, ov_serialnumber(&vf, (int)l), (long long)ov_pcm_total(&vf, (int)l), c.links[l].serial, (long long)g.len[l], hist.c_str(), desc.c_str());
    }
    if (seeks_ok) r.label("has successful seek");
    if (c.links.size() > 1 && seeks_ok) r.label("chained with seek");
    if (mode == 20) { any_nontrivial = toggle_seek_read; if (toggle_seek_read) r.label("toggle after a read, then seek, then read"); }
    if (any_nontrivial) r.nontriv(fnv1a(desc.data(), desc.size()) ^ fnv1a(hist.data(), hist.size()));
    if (r.want_sample() && seeks_ok) r.sample(desc + " ops: " + hist);
    return true;
  }
};
