// libFuzzer driver for tape properties: the input bytes are decoded into a choice-sequence tape and handed to the same prop_run() that
// rapidcheck drives, so coverage-guided mutation searches the structured generator's choice space (every byte string is a valid tape).
// A failing case is written as a replay tape (the reproducible unit), counters are flushed, and the process traps.
#include <unistd.h>
#include <fcntl.h>
#include <signal.h>
#include <sys/time.h>
#include "tape.h"
#include "report.h"

static Report g_rep; static long g_iter = 0; static const char *g_stats = nullptr, *g_cur = nullptr, *g_faildir = nullptr;
extern "C" int __lsan_do_recoverable_leak_check(void) __attribute__((weak));

// 1..5 bytes per word: small words are cheap, so byte-level mutations mostly move between neighbouring choices
static void bytes_to_tape(const uint8_t *d, size_t n, std::vector<uint32_t> &w) {
  for (size_t i = 0; i < n;) { uint8_t b = d[i++]; if (b < 192) w.push_back(b); else if (b < 240) { uint32_t lo = i < n ? d[i++] : 0; w.push_back(((uint32_t)(b - 192) << 8) | lo); } else { uint32_t v = 0; for (int k = 0; k < 4; k++) v |= (uint32_t)(i < n ? d[i++] : 0) << (8 * k); w.push_back(v); } }
}
static void dump_stats() {
  if (!g_stats) return; std::string tmp = std::string(g_stats) + ".tmp"; FILE *f = fopen(tmp.c_str(), "w"); if (!f) return;
  fprintf(f, "{\"evaluations\":%ld,\"labels\":{", g_rep.evaluations); bool first = true; for (auto &kv : g_rep.labels) { fprintf(f, "%s\"%s\":%ld", first ? "" : ",", jesc(kv.first).c_str(), kv.second); first = false; }
  fprintf(f, "},\"nontrivial\":["); first = true; for (uint64_t h : g_rep.nontrivial) { fprintf(f, "%s\"%016llx\"", first ? "" : ",", (unsigned long long)h); first = false; } fprintf(f, "]}\n"); fclose(f); rename(tmp.c_str(), g_stats);
}
static void on_vtalrm(int) { static const char m[] = "WORK-BUDGET exceeded: one case used more CPU time than the per-case budget (unbounded loop?)\n"; if (write(2, m, sizeof m - 1) < 0) {} _exit(97); }

extern "C" int LLVMFuzzerInitialize(int *, char ***) { g_stats = getenv("VERIF_FZ_STATS"); g_cur = getenv("VERIF_FZ_CUR"); g_faildir = getenv("VERIF_FZ_FAILDIR"); signal(SIGVTALRM, on_vtalrm); atexit(dump_stats); return 0; }

extern "C" int LLVMFuzzerTestOneInput(const uint8_t *data, size_t size) {
  std::vector<uint32_t> w; bytes_to_tape(data, size, w);
  if (g_cur) tape_save(g_cur, w);
  struct itimerval it; memset(&it, 0, sizeof it); it.it_value.tv_sec = 150; setitimer(ITIMER_VIRTUAL, &it, nullptr);
  Tape t(w); g_rep.evaluations++; bool held = prop_run(t, g_rep);
  memset(&it, 0, sizeof it); setitimer(ITIMER_VIRTUAL, &it, nullptr);
  if (g_rep.nontrivial.size() > 300000) g_rep.nontrivial.clear();
  if (!held && g_rep.fail_kind != "harness") {
    char path[512]; snprintf(path, sizeof path, "%s/fz-%016llx.tape", g_faildir ? g_faildir : ".", (unsigned long long)fnv1a(w.data(), w.size() * 4));
    std::string hdr = std::string("property=") + prop_id() + " kind=libfuzzer " + g_rep.fail_msg.substr(0, 300); for (auto &ch : hdr) if (ch == '\n') ch = ' ';
    tape_save(path, w, hdr.c_str()); fprintf(stderr, "FUZZ-FAILURE tape=%s : %s\n", path, g_rep.fail_msg.c_str()); dump_stats(); __builtin_trap();
  }
  g_rep.fail_msg.clear();
  if ((++g_iter & 1023) == 0) dump_stats();
  return 0;
}
