// Chained-file generator + ground truth + helpers shared by the vorbisfile properties (C07-C10, C12, C17, C19, C20).
#pragma once
#include "common.h"
#include "vgen.h"

struct GT {                       // ground truth: each link decoded on its own through the packet API
  std::vector<PCM> pcm;           // full-rate
  std::vector<PCM> half;          // half-rate packet-level decode of each link (only when ChainOpts::half)
  std::vector<int64_t> start;     // global start position of each link
  std::vector<int64_t> len;
  std::vector<char> tail_sane;    // DecodeResult::tail_sane of each link
  int64_t total = 0;
  int link_of(int64_t pos) const {   // link whose half-open range contains pos; -1 at/after the end
    for (size_t i = 0; i < len.size(); i++) if (pos >= start[i] && pos < start[i] + len[i]) return (int)i;
    return -1;
  }
};

struct ChainOpts { int maxlinks = 4; int64_t maxN = 30000; bool allow_zero = true; int maxch = 6; bool comments = true; bool multiplex = false; bool half = false; bool even_interior = false; int vgen_pct = 0; int vgen_min_bslog = 6; int vgen_64_pct = 25; bool vgen_big = false; int vgen_maxch = 0; int gp_offset_pct = 0; };

static const long kVfRates[] = {44100, 8000, 22050, 16000, 11025, 48000, 32000, 12000, 24000, 96000};

static inline EncCfg gen_link_cfg(Tape &t, int maxch) {
  EncCfg c; static const int chs[] = {1, 2, 3, 4, 5, 6, 7, 8};
  c.channels = chs[t.weighted({5, 5, 1, 1, 1, 1, 1, 1})]; if (c.channels > maxch) c.channels = 1 + c.channels % maxch;
  c.rate = kVfRates[t.weighted({6, 4, 2, 2, 2, 1, 1, 1, 1, 1})];
  c.mode = 0; c.quality = (float)(t.range(-1, 10) / 10.0);
  if (t.chance(1, 8)) { c.mode = 1; c.br_nom = (long)(c.rate * (c.channels > 1 ? 2.5 : 1.5)); c.br_max = -1; c.br_min = -1; }
  return c;
}

static inline int64_t gen_link_N(Tape &t, int bs0, int bs1, const ChainOpts &o) {
  int cls = t.weighted({6, 2, 3, 4, 1});
  int64_t n;
  switch (cls) {
    default:
    case 0: n = bs1 + (int64_t)t.below((uint32_t)(6 * bs1)); break;                // a few long blocks
    case 1: n = 1 + (int64_t)t.below((uint32_t)bs1); break;                         // shorter than one long block
    case 2: n = (int64_t)(bs1 / 2) * (1 + t.below(8)) + (int64_t)t.below(3) - 1; break;
    case 3: n = (int64_t)t.below((uint32_t)o.maxN); break;
    case 4: n = o.allow_zero ? 0 : 1; break;
  }
  if (n < 0) n = 0; if (n > o.maxN) n = o.maxN; if (!o.allow_zero && n == 0) n = 1;
  return n;
}

struct LinkMeta { EncCfg cfg; Signal sig; std::vector<std::string> comments; Layout lay; };

// Generates 1..maxlinks encoder-made links, pages them, and decodes each link alone as ground truth.
// Returns false (with r.harness/r.fail set) only on harness/encoder trouble.
static inline bool gen_chain(Tape &t, Report &r, const ChainOpts &o, Chain &c, GT &g, std::vector<LinkMeta> &meta, std::string &desc) {
  int k = 1 + t.weighted({4, 5, 3, 2, 1, 1, 1, 1}); if (k > o.maxlinks) k = 1 + k % o.maxlinks;
  c.links.clear(); meta.clear(); g = GT(); desc.clear();
  std::vector<Layout> lays;
  int32_t serial0 = (int32_t)t.raw();
  for (int i = 0; i < k; i++) {
    LinkMeta m; LStream s; int64_t N = 0;
    // serial numbers: distinct; adjacent, negative and large values all occur.  (Drawn after the encoder set-up on the encoder path:
    // the order of draws is kept as it was when the older replay files were saved.)
    auto draw_serial = [&]() {
      int sstyle = t.below(3);
      s.serial = sstyle == 0 ? serial0 + i : sstyle == 1 ? (int32_t)(serial0 ^ (0x9e3779b9u * (uint32_t)(i + 1))) : (int32_t)(0x7fffffff - i * 7 - (serial0 & 0xff));
      for (auto &p : c.links) if (p.serial == s.serial) s.serial = (int32_t)(p.serial + 1000 + i);
    };
    bool synthetic = o.vgen_pct && g_tape_gen >= 2 && (int)t.below(100) < o.vgen_pct;
    if (synthetic) {
      draw_serial();
      // a link synthesised by vgen: any block sizes from 64 up, any channel count, structure the bundled encoder never emits
      vg::GenOpts go; go.simple = true; go.maxch = o.maxch; go.min_bslog = o.vgen_min_bslog; go.max_bslog = t.chance(1, 8) ? 12 : 10; if ((int)t.below(100) < o.vgen_64_pct) go.force_bs0log = 6;
      if (o.vgen_big) { static const int bigs[] = {0, 0, 3, 8, 14, 20, 28}; go.big = bigs[t.below(7)]; }
      if (o.vgen_maxch) go.maxch = o.vgen_maxch;
      int npk = 2 + (int)t.below(t.chance(1, 3) ? 60 : 14); vg::GenStream gs; int32_t ser = s.serial; vg::gen_stream(t, go, npk, gs, ser);
      if (!gs.ok) return r.harness("vgen link: %s", gs.err.c_str());
      s = gs.ls; s.serial = ser;
      if (t.chance(1, 2) && gs.contrib.back() > 0) { int trim = (int)t.below((uint32_t)gs.contrib.back() + 1); s.audio.back().granulepos -= trim; s.nsamples -= trim; }
      if (o.even_interior && i + 1 < k && (s.nsamples & 1)) { s.audio.back().granulepos -= 1; s.nsamples -= 1; }
      N = s.nsamples; m.cfg.channels = s.channels; m.cfg.rate = s.rate; m.cfg.mode = 9; m.comments.clear();
      // comments written by vgen
      { const std::vector<uint8_t> &cp = s.hdr[1].data; size_t o2 = 7; auto u32 = [&]() { uint32_t v = cp[o2] | (cp[o2 + 1] << 8) | (cp[o2 + 2] << 16) | ((uint32_t)cp[o2 + 3] << 24); o2 += 4; return v; }; uint32_t vl = u32(); o2 += vl; uint32_t nc = u32(); for (uint32_t q = 0; q < nc; q++) { uint32_t l = u32(); m.comments.emplace_back((const char *)&cp[o2], l); o2 += l; } }
      r.label("synthetic (vgen) link"); if (s.bs0 == 64) r.label("link with 64-sample short blocks");
    } else {
    m.cfg = gen_link_cfg(t, o.maxch); m.sig = Signal::gen(t);
    if (m.sig.kind == 0 && t.chance(3, 4)) m.sig.kind = 4;   // prefer signals with content: silence makes all positions look alike
    if (m.sig.kind == 1 || m.sig.kind == 7) m.sig.kind = 2;
    Encoder e; int sr = e.setup(m.cfg);
    if (sr != 0) { m.cfg = EncCfg(); m.cfg.channels = 1 + (i & 1); m.cfg.rate = 44100; m.cfg.quality = 0.3f; e.clear(); sr = e.setup(m.cfg); r.label("link cfg fallback"); }
    if (sr != 0) return r.harness("fallback encoder configuration refused: %d", sr);
    draw_serial();
    if (o.comments) { int nc = t.below(4); for (int j = 0; j < nc; j++) m.comments.push_back(sfmt("TAG%d=link%d value %u", j, i, t.below(1000))); }
    if (e.start(s, &m.comments) != 0) return r.harness("encoder start failed: %s", e.err.c_str());
    N = gen_link_N(t, s.bs0, s.bs1, o);
    if (o.even_interior && i + 1 < k) N &= ~(int64_t)1;
    std::vector<int> pieces; if (N) pieces.push_back((int)N); std::vector<char> da; std::string err;
    if (enc_feed(e, m.cfg.channels, m.sig, N, pieces, da, s, err) != 0) return r.harness("encode failed: %s", err.c_str());
    }
    // a link that starts at a positive granule position (cut out of a longer stream): every position is shifted, lengths stay
    if (o.gp_offset_pct && g_tape_gen >= 3 && (int)t.below(100) < o.gp_offset_pct && s.audio.size() >= 3) {
      static const int64_t offs[] = {1, 1000, 44100, 1 << 20, 123456789, (int64_t)1 << 40}; s.gp_offset = offs[t.below(6)];
      for (auto &p : s.audio) p.granulepos += s.gp_offset; r.label("link starting at a positive granule position");
    }
    m.lay = Layout::gen(t); lays.push_back(m.lay);
    DecodeResult d;
    if (!decode_packets(s, d)) return r.harness("link %d does not decode at packet level", i);
    if (d.total() != N) return r.harness("link %d: packet-level decode gives %lld samples for N=%lld (C04 territory)", i, (long long)d.total(), (long long)N);
    if (o.half) {
      DecodeResult dh;
      if (s.bs0 <= 64) g.half.push_back(PCM());     // half rate is refused for 64-sample blocks
      else { if (!decode_packets(s, dh, true)) return r.harness("link %d does not decode at half rate at packet level", i); g.half.push_back(dh.pcm); }
    }
    g.pcm.push_back(d.pcm); g.tail_sane.push_back(d.tail_sane); g.start.push_back(g.total); g.len.push_back(N); g.total += N;
    desc += sfmt("L%d{ch=%d rate=%ld q=%.1f m=%d bs=%d/%d N=%lld pk=%zu ser=%d sig=%d/%g %s} ", i, m.cfg.channels, m.cfg.rate, m.cfg.quality, m.cfg.mode, s.bs0, s.bs1, (long long)N, s.audio.size(), s.serial, m.sig.kind, m.sig.amp, m.lay.desc().c_str());
    if (s.gp_offset) { desc.pop_back(); desc.pop_back(); desc += sfmt(" gp0=%lld} ", (long long)s.gp_offset); }
    c.links.push_back(std::move(s)); meta.push_back(std::move(m));
  }
  build_chain(c, lays);
  return true;
}

// number of audio pages of a link
static inline int audio_pages(const Chain &c, int link) { int n = 0; for (auto &p : c.pages) if (p.link == link && p.last_completed_pkt >= 3) n++; return n; }
// true if page p (index) is the last page of its link
static inline bool is_last_page_of_link(const Chain &c, size_t pi) { return pi + 1 == c.pages.size() || c.pages[pi + 1].link != c.pages[pi].link; }

static inline long vf_budget(const Chain &c) { return std::max<long>(4096, 64 * (long)(c.bytes.size() / 2048 + 1) * ((long)c.links.size() + 1)); }

// Compare n samples returned by a read with ground truth at global position pos (must lie within one link).
static inline bool gt_compare(const GT &g, int64_t pos, float **pcm, long n, int bitstream, int channels_reported, std::string &why, int hs = 0) {
  if (hs) {   // half rate: position pos is on link l's grid start+2k; n samples are half[l][k..k+n)
    int l = g.link_of(pos);
    if (l < 0) { why = sfmt("half-rate read returned %ld samples at position %lld, at or beyond the end (total %lld)", n, (long long)pos, (long long)g.total); return false; }
    if (bitstream != l) { why = sfmt("*bitstream=%d but position %lld lies in link %d", bitstream, (long long)pos, l); return false; }
    if (channels_reported != (int)g.half[l].size()) { why = sfmt("ov_info(-1)->channels=%d, link %d has %zu", channels_reported, l, g.half[l].size()); return false; }
    int64_t off = pos - g.start[l];
    if (off & 1) { why = sfmt("half-rate position %lld is off link %d's sample grid (link starts at %lld)", (long long)pos, l, (long long)g.start[l]); return false; }
    off >>= 1; int64_t hl = g.half[l].empty() ? 0 : (int64_t)g.half[l][0].size();
    if (off + n > hl) { why = sfmt("half-rate read of %ld samples at %lld runs past the end of link %d (%lld half-rate samples)", n, (long long)pos, l, (long long)hl); return false; }
    for (size_t ch = 0; ch < g.half[l].size(); ch++)
      if (memcmp(pcm[ch], g.half[l][ch].data() + off, (size_t)n * sizeof(float))) {
        long i = 0; while (i < n && !memcmp(&pcm[ch][i], &g.half[l][ch][off + i], sizeof(float))) i++;
        why = sfmt("half-rate sample mismatch at global %lld (link %d half-rate index %lld ch %zu): got %.9g want %.9g", (long long)(pos + 2 * i), l, (long long)(off + i), ch, pcm[ch][i], g.half[l][ch][off + i]);
        return false;
      }
    return true;
  }
  int l = g.link_of(pos);
  if (l < 0) { why = sfmt("read returned %ld samples at position %lld, at or beyond the end (total %lld)", n, (long long)pos, (long long)g.total); return false; }
  if (bitstream != l) { why = sfmt("*bitstream=%d but position %lld lies in link %d", bitstream, (long long)pos, l); return false; }
  if (channels_reported != (int)g.pcm[l].size()) { why = sfmt("ov_info(-1)->channels=%d, link %d has %zu", channels_reported, l, g.pcm[l].size()); return false; }
  int64_t off = pos - g.start[l];
  if (off + n > g.len[l]) { why = sfmt("read of %ld samples at %lld runs past the end of link %d (len %lld)", n, (long long)pos, l, (long long)g.len[l]); return false; }
  for (size_t ch = 0; ch < g.pcm[l].size(); ch++)
    if (memcmp(pcm[ch], g.pcm[l][ch].data() + off, (size_t)n * sizeof(float))) {
      long i = 0; while (i < n && !memcmp(&pcm[ch][i], &g.pcm[l][ch][off + i], sizeof(float))) i++;
      why = sfmt("sample mismatch at global %lld (link %d off %lld ch %zu): got %.9g want %.9g", (long long)(pos + i), l, (long long)(off + i), ch, pcm[ch][i], g.pcm[l][ch][off + i]);
      return false;
    }
  return true;
}
