// Choice-sequence ("tape") decoding.  A case is a pure function of a vector<uint32_t>.
// An exhausted tape yields 0, and 0 always selects the simplest alternative.
#pragma once
#include <cstdint>
#include <cstdio>
#include <cstdlib>
#include <string>
#include <vector>
#include <initializer_list>

// Generator generation: replay files written before a generator learned a new kind of choice carry a lower number (or none = 1),
// so that old regression tapes keep decoding to the case they were saved for.
inline int g_tape_gen = 4;

struct Tape {
  std::vector<uint32_t> w;
  size_t pos = 0;
  Tape() {}
  explicit Tape(std::vector<uint32_t> v) : w(std::move(v)) {}
  uint32_t raw() { return pos < w.size() ? w[pos++] : (pos++, 0u); }
  bool exhausted() const { return pos >= w.size(); }
  // uniform-ish in [0,n) ; small tape words give small results
  uint32_t below(uint32_t n) { uint32_t r = raw(); return n ? r % n : 0; }
  // like below() but small tape words are spread over the whole range (0 still maps to 0)
  uint32_t spread(uint32_t n) { uint64_t r = raw(); return n ? (uint32_t)((r * 0x9E3779B97F4A7C15ull >> 20) % n) : 0; }
  // inclusive range
  int range(int lo, int hi) { return lo + (int)below((uint32_t)(hi - lo + 1)); }
  bool chance(uint32_t num, uint32_t den) { return below(den) >= den - num; } // 0 -> false
  uint32_t bits(int k) { uint32_t r = raw(); return k >= 32 ? r : (r & ((1u << k) - 1)); }
  // pick index by weights; index 0 is the simplest alternative
  int weighted(std::initializer_list<int> ws) {
    int tot = 0; for (int x : ws) tot += x;
    int r = (int)below((uint32_t)tot), i = 0;
    for (int x : ws) { if (r < x) return i; r -= x; i++; }
    return 0;
  }
  template <class T> const T &pick(const std::vector<T> &v) { return v[below((uint32_t)v.size())]; }
};

// fixed integer mixing for bulk content expanded from one tape word
static inline uint64_t mix64(uint64_t x) {
  x += 0x9E3779B97F4A7C15ull; x = (x ^ (x >> 30)) * 0xBF58476D1CE4E5B9ull;
  x = (x ^ (x >> 27)) * 0x94D049BB133111EBull; return x ^ (x >> 31);
}
struct Bulk {  // deterministic stream from a seed word; seed 0 -> all zeros
  uint64_t s; bool zero;
  explicit Bulk(uint32_t seed) : s(seed), zero(seed == 0) {}
  uint64_t next() { if (zero) return 0; s = mix64(s); return s; }
  uint32_t below(uint32_t n) { return n ? (uint32_t)(next() % n) : 0; }
  double unit() { return zero ? 0.0 : (double)(next() >> 11) / 9007199254740992.0; } // [0,1)
};

static inline uint64_t fnv1a(const void *p, size_t n, uint64_t h = 1469598103934665603ull) {
  const unsigned char *c = (const unsigned char *)p;
  for (size_t i = 0; i < n; i++) { h ^= c[i]; h *= 1099511628211ull; }
  return h;
}

static inline bool tape_load(const char *path, std::vector<uint32_t> &out) {
  FILE *f = fopen(path, "r"); if (!f) return false;
  out.clear(); int c; std::string line; g_tape_gen = 1;
  auto flush = [&]() { if (!line.empty() && line[0] == '#') { size_t q = line.find("gen="); if (q != std::string::npos) g_tape_gen = atoi(line.c_str() + q + 4); } if (!line.empty() && line[0] != '#') { const char *p = line.c_str(); while (*p == ' ') p++; if (*p >= '0' && *p <= '9') out.push_back((uint32_t)strtoul(p, nullptr, 10)); } line.clear(); };
  while ((c = fgetc(f)) != EOF) { if (c == '\n') flush(); else line.push_back((char)c); }
  flush(); fclose(f); return true;
}
static inline bool tape_save(const char *path, const std::vector<uint32_t> &w, const char *hdr = nullptr) {
  FILE *f = fopen(path, "w"); if (!f) return false;
  fprintf(f, "# gen=4\n"); if (hdr) fprintf(f, "# %s\n", hdr);
  for (uint32_t x : w) fprintf(f, "%u\n", x);
  fclose(f); return true;
}
