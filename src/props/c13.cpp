// C13: clear functions release everything on success and on every error path.
// Every scenario ends in the documented clear calls, made twice; the per-case LeakSanitizer check of the driver (rc_main.cpp) plus
// AddressSanitizer decide "returns all memory, frees nothing twice"; this file checks that the objects are zeroed, that the second round
// is harmless, and the close-callback accounting of vorbisfile.
#include "../vfmodel.h"
const char *prop_id() { return "C13"; }

template <class T> static bool is_zero(const T &x) { const unsigned char *p = (const unsigned char *)&x; for (size_t i = 0; i < sizeof x; i++) if (p[i]) return false; return true; }
template <class T> static void garbage(T &x) { memset(&x, 0x5b, sizeof x); }

// ---- (a) encoder scenarios: stop after a tape-chosen stage, then clear everything that exists, twice
static bool enc_scenario(Tape &t, Report &r) {
  EncCfg cfg = gen_enccfg(t, true, 8);
  if (t.chance(1, 8)) cfg.channels = t.chance(1, 2) ? 255 : 9 + t.below(60);
  if (t.chance(1, 10)) cfg.channels = (int)t.below(3) == 0 ? 0 : (t.chance(1, 2) ? 256 : -1);       // rejected set-ups
  if (t.chance(1, 10)) cfg.rate = t.chance(1, 2) ? 0 : 250000;
  int stage = t.weighted({1, 2, 2, 2, 2, 4});   // 0 info_init only, 1 set-up, 2 analysis_init, 3 block_init, 4 headerout, 5 encode k blocks
  std::string d = cfg.desc() + sfmt(" stage=%d", stage);
  vorbis_info vi; vorbis_comment vc; vorbis_dsp_state vd; vorbis_block vb; garbage(vi); garbage(vc); garbage(vd); garbage(vb);
  bool have_vd = false, have_vb = false; vorbis_info_init(&vi); vorbis_comment_init(&vc);
  int nc = t.below(4); for (int i = 0; i < nc; i++) vorbis_comment_add_tag(&vc, sfmt("K%d", i).c_str(), "value");
  int sr = 0;
  if (stage >= 1) {
    if (cfg.mode == 0) sr = vorbis_encode_init_vbr(&vi, cfg.channels, cfg.rate, cfg.quality);
    else if (cfg.mode == 1) sr = vorbis_encode_init(&vi, cfg.channels, cfg.rate, cfg.br_max, cfg.br_nom, cfg.br_min);
    else { sr = cfg.managed_base ? vorbis_encode_setup_managed(&vi, cfg.channels, cfg.rate, cfg.br_max, cfg.br_nom, cfg.br_min) : vorbis_encode_setup_vbr(&vi, cfg.channels, cfg.rate, cfg.quality);
      if (sr == 0) { if (cfg.ctl_lowpass) { double v = cfg.lowpass_khz; vorbis_encode_ctl(&vi, OV_ECTL_LOWPASS_SET, &v); } if (cfg.ctl_coupling) { int v = cfg.coupling; vorbis_encode_ctl(&vi, OV_ECTL_COUPLING_SET, &v); } if (cfg.ctl_rm2_null) vorbis_encode_ctl(&vi, OV_ECTL_RATEMANAGE2_SET, NULL);
        if (t.chance(1, 5)) { r.label("three-step set-up abandoned before setup_init"); stage = 1; } else sr = vorbis_encode_setup_init(&vi); } }
    if (sr != 0) { r.label("encoder set-up rejected"); stage = 1; }
  }
  if (sr == 0 && stage >= 2 && vi.codec_setup && vi.channels > 0) { if (vorbis_analysis_init(&vd, &vi) == 0) have_vd = true; else { r.label("analysis_init failed"); stage = 2; } } else if (stage >= 2) stage = 1;
  if (have_vd && stage >= 3) { vorbis_block_init(&vd, &vb); have_vb = true; }
  if (have_vd && stage >= 4) { ogg_packet a, b, c; int hr = vorbis_analysis_headerout(&vd, &vc, &a, &b, &c); if (hr) r.label("headerout failed"); if (t.chance(1, 3)) vorbis_analysis_headerout(&vd, &vc, &a, &b, &c); }
  if (have_vb && stage >= 5) {
    Signal sig = Signal::gen(t); int64_t M = (int64_t)t.below(3) * vorbis_info_blocksize(&vi, 1) + t.below(5000); if (vi.channels > 16) M = std::min<int64_t>(M, 3000); int64_t done = 0; bool finish = t.chance(2, 3);
    while (done < M) { int n = (int)std::min<int64_t>(M - done, 1 + t.below(4000)); float **buf = vorbis_analysis_buffer(&vd, n); for (int c = 0; c < vi.channels; c++) sig.fill(c, done, n, buf[c], M); vorbis_analysis_wrote(&vd, n); done += n;
      while (vorbis_analysis_blockout(&vd, &vb) == 1) { if (t.chance(1, 20)) break; vorbis_analysis(&vb, NULL); vorbis_bitrate_addblock(&vb); ogg_packet op; while (vorbis_bitrate_flushpacket(&vd, &op) == 1) {} } }
    if (finish) { vorbis_analysis_wrote(&vd, 0); while (vorbis_analysis_blockout(&vd, &vb) == 1) { vorbis_analysis(&vb, NULL); vorbis_bitrate_addblock(&vb); ogg_packet op; while (vorbis_bitrate_flushpacket(&vd, &op) == 1) {} } } else r.label("encoder abandoned mid-stream");
  }
  for (int round = 0; round < 2; round++) {
    if (have_vb) { vorbis_block_clear(&vb); if (!is_zero(vb)) return r.fail("vorbis_block_clear leaves a non-zero structure (round %d) [%s]", round, d.c_str()); }
    if (have_vd) { vorbis_dsp_clear(&vd); if (!is_zero(vd)) return r.fail("vorbis_dsp_clear leaves a non-zero structure (round %d) [%s]", round, d.c_str()); }
    vorbis_comment_clear(&vc); if (!is_zero(vc)) return r.fail("vorbis_comment_clear leaves a non-zero structure [%s]", d.c_str());
    vorbis_info_clear(&vi); if (!is_zero(vi)) return r.fail("vorbis_info_clear leaves a non-zero structure (round %d) [%s]", round, d.c_str());
  }
  r.label(sfmt("encoder scenario, stage %d", stage)); if (cfg.channels == 6) r.label("5.1 template"); if (cfg.mode) r.label("managed/three-step encoder");
  if (sr != 0 || stage < 5) r.nontriv(fnv1a(d.data(), d.size()) ^ 0xe); if (r.want_sample()) r.sample("enc: " + d);
  return true;
}

// ---- (b) packet-level decoder: header prefixes, truncations and corruptions, synthesis_init on whatever resulted, a few packets, clear
static bool dec_scenario(Tape &t, Report &r) {
  LStream s; std::string desc; bool synthetic = t.chance(1, 2);
  if (synthetic) { vg::GenOpts go; go.simple = t.chance(1, 2); go.maxch = 6; go.max_bslog = 10; vg::GenStream gs; vg::gen_stream(t, go, 2 + (int)t.below(8), gs, 3); if (!gs.ok) return r.harness("vgen: %s", gs.err.c_str()); s = gs.ls; desc = s.desc; }
  else { EncCfg cfg = gen_link_cfg(t, 6); Signal sig = Signal::gen(t); std::string err; std::vector<int> pieces{3000}; std::vector<char> da; if (encode_stream(cfg, sig, 3000, pieces, da, s, err)) { cfg = EncCfg(); if (encode_stream(cfg, sig, 3000, pieces, da, s, err)) return r.harness("encode: %s", err.c_str()); } desc = s.desc; }
  int nh = t.weighted({1, 1, 2, 6});   // number of headers submitted
  int damage_at = t.chance(1, 2) ? (int)t.below(3) : -1; int dkind = t.below(4);
  std::string d = desc + sfmt(" headers=%d damage=%d/%d", nh, damage_at, dkind);
  vorbis_info vi; vorbis_comment vc; vorbis_dsp_state vd; vorbis_block vb; garbage(vi); garbage(vc); garbage(vd); garbage(vb);
  vorbis_info_init(&vi); vorbis_comment_init(&vc); int hret = 0; int accepted = 0;
  for (int i = 0; i < nh; i++) {
    Pkt p = s.hdr[i];
    if (i == damage_at && !p.data.empty()) {
      switch (dkind) {
        case 0: p.data.resize(t.spread((uint32_t)p.data.size())); break;                                                    // truncated at any byte
        case 1: { int nb = 1 + (int)t.below(8); Bulk fl(t.raw() | 1); for (int b = 0; b < nb; b++) { size_t bit = fl.below((uint32_t)p.data.size() * 8); p.data[bit >> 3] ^= (uint8_t)(1u << (bit & 7)); } } break;
        case 2: { size_t at = 7 + t.spread((uint32_t)std::max<size_t>(1, p.data.size() - 7)); if (at < p.data.size()) p.data[at] = (uint8_t)t.below(256); } break;   // one field byte replaced
        case 3: { Bulk rb(t.raw() | 1); size_t from = std::min<size_t>(p.data.size(), 7 + t.spread((uint32_t)p.data.size())); for (size_t k = from; k < p.data.size(); k++) p.data[k] = (uint8_t)rb.below(256); } break;   // garbage tail
      }
      r.label("damaged header");
    }
    ogg_packet op; p.to_ogg(op); hret = vorbis_synthesis_headerin(&vi, &vc, &op);
    if (hret != 0) { r.label("header refused"); break; }
    accepted++;
  }
  // synthesis_init on whatever state resulted (0..3 headers): must succeed or fail cleanly, and vorbis_dsp_clear afterwards is safe either way
  bool try_init = accepted == 3 || t.chance(1, 2); bool have_vd = false, have_vb = false;
  if (try_init && vi.codec_setup) {
    int ir = vorbis_synthesis_init(&vd, &vi);
    if (ir == 0) { have_vd = true; if (accepted < 3) return r.fail("vorbis_synthesis_init succeeded with only %d header(s) [%s]", accepted, d.c_str()); }
    else { r.label("synthesis_init failed"); vorbis_dsp_clear(&vd); if (!is_zero(vd)) return r.fail("vorbis_dsp_clear after a failed vorbis_synthesis_init leaves a non-zero structure [%s]", d.c_str()); }
  }
  if (have_vd) {
    vorbis_block_init(&vd, &vb); have_vb = true; size_t m = t.below((uint32_t)s.audio.size() + 1);
    for (size_t k = 0; k < m; k++) { ogg_packet op; s.audio[k].to_ogg(op); if (vorbis_synthesis(&vb, &op) == 0) { vorbis_synthesis_blockin(&vd, &vb); float **pcm; int n = vorbis_synthesis_pcmout(&vd, &pcm); vorbis_synthesis_read(&vd, n); } }
    r.label("decoder initialised");
  }
  for (int round = 0; round < 2; round++) {
    if (have_vb) { vorbis_block_clear(&vb); if (!is_zero(vb)) return r.fail("vorbis_block_clear leaves a non-zero structure [%s]", d.c_str()); }
    if (have_vd) { vorbis_dsp_clear(&vd); if (!is_zero(vd)) return r.fail("vorbis_dsp_clear leaves a non-zero structure [%s]", d.c_str()); }
    vorbis_comment_clear(&vc); vorbis_info_clear(&vi);
    if (!is_zero(vc) || !is_zero(vi)) return r.fail("vorbis_comment_clear / vorbis_info_clear leave a non-zero structure (round %d) [%s]", round, d.c_str());
  }
  r.label(sfmt("decoder scenario, %d header(s) accepted", accepted)); if (synthetic) r.label("synthetic headers");
  if (accepted < 3) r.nontriv(fnv1a(d.data(), d.size()) ^ 0xd); if (r.want_sample()) r.sample("dec: " + d);
  return true;
}

// ---- (c) vorbisfile: intact and damaged physical streams, opens that fail at every stage, ov_test without ov_test_open, failing seeks
static bool vf_scenario(Tape &t, Report &r) {
  ChainOpts o; o.maxlinks = 3; o.maxN = 6000; o.vgen_pct = 40; o.maxch = 4; Chain c; GT g; std::vector<LinkMeta> meta; std::string desc;
  if (!gen_chain(t, r, o, c, g, meta, desc)) return false;
  std::vector<uint8_t> bytes = c.bytes; int damage = t.weighted({3, 2, 2, 2, 2, 1});
  switch (damage) {
    case 1: bytes.resize(t.spread((uint32_t)bytes.size())); break;                                                   // truncated anywhere
    case 2: { int nb = 1 + (int)t.below(20); Bulk fl(t.raw() | 1); for (int b = 0; b < nb && !bytes.empty(); b++) bytes[fl.below((uint32_t)bytes.size())] ^= (uint8_t)(1u << fl.below(8)); } break;
    case 3: if (c.pages.size() > 2) { size_t pi = 1 + t.below((uint32_t)c.pages.size() - 1); bytes.erase(bytes.begin() + c.pages[pi].offset, bytes.begin() + c.pages[pi].offset + c.pages[pi].len); } break;   // a page removed
    case 4: if (c.links.size() > 1) { size_t cut = (size_t)c.link_start[1] + t.spread((uint32_t)std::min<int64_t>(400, c.link_end[1] - c.link_start[1])); bytes.resize(cut); } break;      // later link cut inside its headers
    case 5: { Bulk rb(t.raw() | 1); bytes.resize(200 + rb.below(3000)); for (auto &b : bytes) b = (uint8_t)rb.below(256); } break;   // not Ogg at all
  }
  int openkind = t.weighted({4, 2, 2, 1});   // seekable, streaming, ov_test then ov_test_open, ov_test only
  int fault = t.weighted({4, 1, 1, 1}); long fat = (long)t.below(60);
  std::string d = desc + sfmt("| damage=%d bytes=%zu open=%d fault=%d@%ld", damage, bytes.size(), openkind, fault, fat);
  MemSrc ms; ms.data = &bytes; ms.budget = std::max<long>(20000, 64 * (long)(bytes.size() / 2048 + 1) * 6); ms.mark();
  if (fault) { static const int fk[] = {0, MemSrc::READ_ERR, MemSrc::SEEK_FAIL, MemSrc::TELL_FAIL}; ms.fault_kind = fk[fault]; ms.fault_at = fat; ms.fault_len = t.chance(1, 2) ? 1 : 1000000; }
  OggVorbis_File vf; garbage(vf); ov_callbacks cb = ms_callbacks(openkind != 1);
  int orr; bool opened = false;
  if (openkind >= 2) { orr = ov_test_callbacks(&ms, &vf, NULL, 0, cb); if (orr == 0 && openkind == 2) { ms.mark(); orr = ov_test_open(&vf); } opened = orr == 0; }
  else { orr = ov_open_callbacks(&ms, &vf, NULL, 0, cb); opened = orr == 0; }
  if (!opened) {
    if (!is_zero(vf)) return r.fail("a failed open (%d) leaves the OggVorbis_File not cleared [%s]", orr, d.c_str());
    if (ms.closes != 0) return r.fail("the close callback ran %ld time(s) although the open failed (%d) [%s]", ms.closes, orr, d.c_str());
    ov_clear(&vf); ov_clear(&vf);
    if (ms.closes != 0) return r.fail("ov_clear on a handle whose open failed ran the close callback [%s]", d.c_str());
    r.label("open failed"); r.nontriv(fnv1a(d.data(), d.size()) ^ 0xf); if (r.want_sample()) r.sample("vf: " + d); return true;
  }
  // some use, including seeks that may fail and lapping / half rate
  int nuse = (int)t.below(6);
  for (int i = 0; i < nuse; i++) {
    ms.mark(); int64_t tot = ov_pcm_total(&vf, -1); if (tot < 0) tot = 0; int64_t p = (int64_t)t.spread((uint32_t)std::min<int64_t>(tot + 10, 0x7fffffff));
    switch (t.below(7)) {
      case 0: { float **pcm; int bs; ov_read_float(&vf, &pcm, 1 + (int)t.below(3000), &bs); } break;
      case 1: ov_pcm_seek(&vf, p); break; case 2: ov_raw_seek(&vf, (int64_t)t.spread((uint32_t)bytes.size() + 5)); break; case 3: ov_pcm_seek_lap(&vf, p); break;
      case 4: ov_halfrate(&vf, (int)t.below(2)); break; case 5: ov_time_seek_page(&vf, (double)t.below(100) / 10.0); break; case 6: { char buf[512]; int bs; ov_read(&vf, buf, (int)t.below(513), 0, 2, 1, &bs); } break;
    }
    if (ms.closes != 0) return r.fail("the close callback ran before ov_clear [%s]", d.c_str());
  }
  if (ov_clear(&vf) != 0) return r.fail("ov_clear returned non-zero [%s]", d.c_str());
  if (!is_zero(vf)) return r.fail("ov_clear leaves a non-zero OggVorbis_File [%s]", d.c_str());
  if (ms.closes != 1) return r.fail("the close callback ran %ld times at ov_clear of a successfully opened handle [%s]", ms.closes, d.c_str());
  ov_clear(&vf); if (ms.closes != 1) return r.fail("a second ov_clear ran the close callback again [%s]", d.c_str());
  r.label(openkind == 3 ? "ov_test without ov_test_open, cleared" : "open succeeded"); if (damage) { r.label("damaged stream opened"); r.nontriv(fnv1a(d.data(), d.size()) ^ 0xc); }
  if (r.want_sample()) r.sample("vf: " + d);
  return true;
}

bool prop_run(Tape &t, Report &r) {
  switch (t.weighted({3, 3, 4})) { case 0: return enc_scenario(t, r); case 1: return dec_scenario(t, r); default: return vf_scenario(t, r); }
}
