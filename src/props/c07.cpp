// C07: see seekcase.h (mode 7)
#include "../seekcase.h"
const char *prop_id() { return "C07"; }
bool prop_run(Tape &t, Report &r) { SeekRun s(t, r, 7); return s.run(); }
