// C16: comments survive the header round trip and queries are consistent.
#include "../common.h"
#include <clocale>
const char *prop_id() { return "C16"; }

struct Entry { std::string bytes; bool is_null = false; };

static const char *kTags[] = {"TITLE", "ARTIST", "album", "Date", "x", "", "A=B", "REPLAYGAIN_TRACK_GAIN", "t\xc3\xa9l\xc3\xa9", "[tag]", "TITLEX", "TITL", "z{|}~", "@`", "i", "I"};

static std::string recase(Tape &t, const std::string &s) {
  std::string o = s; int mode = t.below(4);
  for (auto &ch : o) { int flip = mode == 0 ? 0 : mode == 1 ? 1 : (int)t.below(2); if (!flip) continue; if (ch >= 'a' && ch <= 'z') ch = (char)(ch - 32); else if (ch >= 'A' && ch <= 'Z') ch = (char)(ch + 32); }
  return o;
}
static int up(int c) { return (c >= 'a' && c <= 'z') ? c - 32 : c; }   // ASCII only, by the statement
// model of the documented matching rule: entry matches tag iff it starts with tag, compared ASCII-case-insensitively, followed by '='
static bool model_match(const std::string &e, const std::string &tag) {
  std::string full = tag + "=";
  if (e.size() < full.size()) return false;
  for (size_t i = 0; i < full.size(); i++) if (up((unsigned char)e[i]) != up((unsigned char)full[i])) return false;
  return true;
}

static LStream *id_stream() {   // one valid identification header (8 kHz mono), built once: immutable harness state
  static LStream *s = nullptr;
  if (!s) { s = new LStream; Encoder e; EncCfg c; c.channels = 1; c.rate = 8000; c.quality = 0.1f; if (e.setup(c) || e.start(*s)) { delete s; s = nullptr; } }
  return s;
}

// own reading of a comment header packet (spec 5.2.1): returns false when the packet is not exactly well-formed
static bool parse_comment_packet(const std::vector<uint8_t> &p, std::string &vendor, std::vector<std::string> &out) {
  size_t o = 0; auto u32 = [&](uint32_t &v) { if (o + 4 > p.size()) return false; v = p[o] | (p[o + 1] << 8) | (p[o + 2] << 16) | ((uint32_t)p[o + 3] << 24); o += 4; return true; };
  if (p.size() < 7 || p[0] != 3 || memcmp(&p[1], "vorbis", 6)) return false; o = 7;
  uint32_t vl; if (!u32(vl) || o + vl > p.size()) return false; vendor.assign((const char *)&p[o], vl); o += vl;
  uint32_t n; if (!u32(n)) return false;
  for (uint32_t i = 0; i < n; i++) { uint32_t l; if (!u32(l) || o + l > p.size()) return false; out.emplace_back((const char *)&p[o], l); o += l; }
  if (o + 1 != p.size() || !(p[o] & 1)) return false;   // framing bit, nothing after it
  return true;
}

bool prop_run(Tape &t, Report &r) {
  LStream *ids = id_stream(); if (!ids) return r.harness("cannot build an identification header");
  static const char *locs[] = {"C", "C.UTF-8", "POSIX"};
  const char *loc = locs[t.below(3)]; setlocale(LC_ALL, loc);
  // ---- generate the list
  int ncls = t.weighted({2, 8, 4, 1, 1});
  int n = ncls == 0 ? 0 : ncls == 1 ? 1 + t.below(6) : ncls == 2 ? 1 + t.below(60) : ncls == 3 ? 200 + t.below(3000) : 1;
  bool want_zero = t.chance(1, 4), want_null = t.chance(1, 8);
  std::vector<Entry> L; bool has_zero = false, has_null = false, dup_case = false; size_t total = 0;
  Bulk content(t.raw() | 1);
  for (int i = 0; i < n; i++) {
    Entry e; int kind = n > 200 ? (int)content.below(4) : t.weighted({6, 2, 1, 1, 1});
    std::string tag = recase(t, kTags[(n > 200 ? content.below(16) : t.below(16))]);
    size_t vlen;
    { int lc = n > 200 ? 0 : t.weighted({8, 3, 1, 1}); vlen = lc == 0 ? t.below(24) : lc == 1 ? t.below(300) : lc == 2 ? 250 + t.below(20) : (ncls == 4 || t.chance(1, 3) ? 100000 + t.below(250000) : 4000 + t.below(4000)); }
    std::string val; val.reserve(vlen);
    int alphabet = t.below(3);   // printable, any non-zero byte, any byte (only for explicit-length entries)
    for (size_t k = 0; k < vlen; k++) { int b = alphabet == 0 ? 32 + (int)content.below(95) : 1 + (int)content.below(255); val.push_back((char)b); }
    switch (kind) {
      case 0: e.bytes = tag + "=" + val; break;
      case 1: e.bytes = val; break;                        // no tag at all
      case 2: e.bytes = ""; break;
      case 3: e.bytes = tag; break;                        // tag without '='
      default: e.bytes = tag + "=" + val + "=" + tag; break;
    }
    if (want_zero && !e.bytes.empty() && t.chance(1, 2)) { e.bytes[t.below((uint32_t)e.bytes.size())] = 0; if (t.chance(1, 3)) e.bytes.push_back(0); has_zero = true; }
    if (want_null && t.chance(1, 3)) { e.is_null = true; e.bytes.clear(); has_null = true; }
    total += e.bytes.size(); L.push_back(std::move(e));
  }
  for (size_t i = 0; i < L.size() && !dup_case; i++) for (size_t j = i + 1; j < L.size() && j < i + 40; j++) {
    size_t a = L[i].bytes.find('='), b = L[j].bytes.find('=');
    if (a != std::string::npos && a == b && a > 0 && L[i].bytes.compare(0, a, L[j].bytes, 0, a) != 0 && model_match(L[j].bytes, L[i].bytes.substr(0, a))) { dup_case = true; break; }
  }
  // ---- install: C-string API when possible, hand-built arrays with explicit lengths otherwise
  bool api = !has_zero && !has_null && t.below(4) != 0;
  vorbis_comment vc; vorbis_comment_init(&vc);
  if (api) {
    for (auto &e : L) {
      size_t eq = e.bytes.find('=');
      if (eq != std::string::npos && t.chance(1, 2)) vorbis_comment_add_tag(&vc, e.bytes.substr(0, eq).c_str(), e.bytes.substr(eq + 1).c_str());
      else vorbis_comment_add(&vc, e.bytes.c_str());
    }
  } else {
    vc.comments = (int)L.size();
    vc.user_comments = (char **)malloc((L.size() + 1) * sizeof(char *)); vc.comment_lengths = (int *)malloc((L.size() + 1) * sizeof(int));
    for (size_t i = 0; i < L.size(); i++) {
      if (L[i].is_null) { vc.user_comments[i] = nullptr; vc.comment_lengths[i] = (int)t.below(3); continue; }   // a NULL entry is written as an empty string whatever its length field says
      vc.user_comments[i] = (char *)malloc(L[i].bytes.size() + 1); memcpy(vc.user_comments[i], L[i].bytes.data(), L[i].bytes.size()); vc.user_comments[i][L[i].bytes.size()] = 0;
      vc.comment_lengths[i] = (int)L[i].bytes.size();
    }
    vc.user_comments[L.size()] = nullptr; vc.comment_lengths[L.size()] = 0;
  }
  std::string cd = sfmt("comments{n=%zu bytes=%zu api=%d zero=%d null=%d dupcase=%d locale=%s first=\"%s\"}", L.size(), total, (int)api, (int)has_zero, (int)has_null, (int)dup_case, loc,
                        L.empty() ? "" : jesc(L[0].bytes.substr(0, 40)).c_str());
  r.label(api ? "installed through vorbis_comment_add/add_tag" : "hand-built with explicit lengths");
  if (has_zero) r.label("embedded zero byte"); if (has_null) r.label("NULL entry"); if (dup_case) r.label("duplicate tag in different case");
  if (n == 0) r.label("empty list"); if (n > 200) r.label("hundreds of entries"); if (total > 100000) r.label(">100 kB of comments");
  struct VG { vorbis_comment *v; ~VG() { vorbis_comment_clear(v); } } vg{&vc};

  // ---- queries on the source object (model: n-th match in insertion order)
  auto check_queries = [&](vorbis_comment *q, const char *which) -> bool {
    int nq = 1 + t.below(6);
    for (int k = 0; k < nq; k++) {
      std::string tag;
      int how = t.weighted({4, 2, 1, 1});
      if (how == 0 && !L.empty()) { const std::string &b = L[t.below((uint32_t)L.size())].bytes; size_t eq = b.find('='); tag = recase(t, b.substr(0, eq == std::string::npos ? std::min<size_t>(b.size(), 5) : eq)); }
      else if (how == 1) tag = recase(t, kTags[t.below(16)]);
      else if (how == 2 && !L.empty()) { const std::string &b = L[t.below((uint32_t)L.size())].bytes; tag = b.substr(0, std::min<size_t>(b.size(), t.below(12))); }
      else tag = "";
      size_t z = tag.find('\0'); if (z != std::string::npos) tag.resize(z);   // a C-string argument
      if (tag.size() > 64) tag.resize(64);
      std::vector<size_t> matches; for (size_t i = 0; i < L.size(); i++) if (!L[i].is_null && model_match(L[i].bytes, tag)) matches.push_back(i);
      int cnt = vorbis_comment_query_count(q, tag.c_str());
      if (cnt != (int)matches.size()) return r.fail("%s: vorbis_comment_query_count(\"%s\")=%d, model %zu [%s]", which, jesc(tag).c_str(), cnt, matches.size(), cd.c_str());
      int succ = 0;
      for (int i = -1; i <= (int)matches.size() + 1; i++) {
        char *res = vorbis_comment_query(q, tag.c_str(), i);
        bool want = i >= 0 && i < (int)matches.size();
        if ((res != nullptr) != want) return r.fail("%s: vorbis_comment_query(\"%s\",%d) %s, %zu matches [%s]", which, jesc(tag).c_str(), i, res ? "found an entry" : "returned NULL", matches.size(), cd.c_str());
        if (res) { succ++; if (res != q->user_comments[matches[i]] + tag.size() + 1) return r.fail("%s: vorbis_comment_query(\"%s\",%d) does not point at the value of entry %zu [%s]", which, jesc(tag).c_str(), i, matches[i], cd.c_str()); }
      }
      if (succ != cnt) return r.fail("%s: %d successful queries but count %d [%s]", which, succ, cnt, cd.c_str());
      if (!matches.empty()) r.label("query with matches"); if (matches.size() >= 2) r.label("query with >=2 matches");
    }
    return true;
  };
  if (!has_null && !check_queries(&vc, "source object")) return false;

  // ---- pack
  ogg_packet op; memset(&op, 0, sizeof op); std::vector<uint8_t> pkt; bool via_headerout = t.chance(1, 4);
  if (via_headerout) {
    Encoder e; EncCfg c; c.channels = 1; c.rate = 8000; c.quality = 0.1f; if (e.setup(c)) return r.harness("encoder setup");
    vorbis_dsp_state vd; if (vorbis_analysis_init(&vd, &e.vi)) return r.harness("analysis_init");
    ogg_packet h0, h1, h2; int hr = vorbis_analysis_headerout(&vd, &vc, &h0, &h1, &h2);
    if (hr != 0) { vorbis_dsp_clear(&vd); return r.fail("vorbis_analysis_headerout=%d [%s]", hr, cd.c_str()); }
    pkt.assign(h1.packet, h1.packet + h1.bytes); vorbis_dsp_clear(&vd); r.label("packed by vorbis_analysis_headerout");
  } else {
    int pr = vorbis_commentheader_out(&vc, &op);
    if (pr != 0) return r.fail("vorbis_commentheader_out=%d [%s]", pr, cd.c_str());
    pkt.assign(op.packet, op.packet + op.bytes); ogg_packet_clear(&op); r.label("packed by vorbis_commentheader_out");
  }
  // ---- the packet itself, read by an independent parser
  std::string vendor_p; std::vector<std::string> ents_p;
  if (!parse_comment_packet(pkt, vendor_p, ents_p)) return r.fail("comment header packet is not well-formed (%zu bytes) [%s]", pkt.size(), cd.c_str());
  if (ents_p.size() != L.size()) return r.fail("packet holds %zu entries, list has %zu [%s]", ents_p.size(), L.size(), cd.c_str());
  for (size_t i = 0; i < L.size(); i++) if (ents_p[i] != L[i].bytes) return r.fail("packet entry %zu differs from the list (len %zu vs %zu) [%s]", i, ents_p[i].size(), L[i].bytes.size(), cd.c_str());
  if (vendor_p.empty()) return r.fail("empty vendor string in packet [%s]", cd.c_str());
  static std::string vendor_seen; if (vendor_seen.empty()) vendor_seen = vendor_p;
  if (vendor_p != vendor_seen) return r.fail("vendor string changed between comment lists: \"%s\" vs \"%s\"", jesc(vendor_p).c_str(), jesc(vendor_seen).c_str());

  // ---- unpack through the decoder
  vorbis_info vi; vorbis_comment vc2; vorbis_info_init(&vi); vorbis_comment_init(&vc2);
  struct G2 { vorbis_info *i; vorbis_comment *c; ~G2() { vorbis_comment_clear(c); vorbis_info_clear(i); } } g2{&vi, &vc2};
  ogg_packet h; ids->hdr[0].to_ogg(h);
  if (vorbis_synthesis_headerin(&vi, &vc2, &h) != 0) return r.harness("identification header refused");
  Pkt cp; cp.data = pkt; cp.packetno = 1; cp.to_ogg(h);
  int hr = vorbis_synthesis_headerin(&vi, &vc2, &h);
  if (hr != 0) return r.fail("vorbis_synthesis_headerin refuses the comment header (%d) [%s]", hr, cd.c_str());
  if (vc2.comments != (int)L.size()) return r.fail("read back %d comments, wrote %zu [%s]", vc2.comments, L.size(), cd.c_str());
  for (size_t i = 0; i < L.size(); i++) {
    if (vc2.comment_lengths[i] != (int)L[i].bytes.size()) return r.fail("entry %zu: length %d read back, %zu written [%s]", i, vc2.comment_lengths[i], L[i].bytes.size(), cd.c_str());
    if (!vc2.user_comments[i]) return r.fail("entry %zu read back as NULL [%s]", i, cd.c_str());
    if (memcmp(vc2.user_comments[i], L[i].bytes.data(), L[i].bytes.size())) return r.fail("entry %zu: bytes differ after the round trip [%s]", i, cd.c_str());
    if (vc2.user_comments[i][L[i].bytes.size()] != 0) return r.fail("entry %zu is not zero-terminated at its length [%s]", i, cd.c_str());
  }
  if (!vc2.vendor || vendor_p != vc2.vendor) return r.fail("vendor read back \"%s\", packet says \"%s\" [%s]", vc2.vendor ? jesc(vc2.vendor).c_str() : "(null)", jesc(vendor_p).c_str(), cd.c_str());
  if (!check_queries(&vc2, "decoded object")) return false;

  // ---- and through a paged stream with ov_comment
  if (t.chance(1, 6) && total < 60000) {
    LStream s = *ids; s.hdr[1].data = pkt; s.serial = 77;
    Chain c; c.links.push_back(s); std::vector<Layout> lays{Layout::gen(t)}; build_chain(c, lays);
    MemSrc ms; ms.data = &c.bytes; OggVorbis_File vf;
    int orr = ov_open_callbacks(&ms, &vf, NULL, 0, ms_callbacks(true));
    if (orr != 0) return r.fail("ov_open_callbacks=%d on a stream carrying the comment header [%s]", orr, cd.c_str());
    vorbis_comment *v3 = ov_comment(&vf, -1); bool okc = v3 && v3->comments == (int)L.size();
    for (size_t i = 0; okc && i < L.size(); i++) okc = v3->comment_lengths[i] == (int)L[i].bytes.size() && !memcmp(v3->user_comments[i], L[i].bytes.data(), L[i].bytes.size());
    ov_clear(&vf);
    if (!okc) return r.fail("ov_comment does not return the list that was written [%s]", cd.c_str());
    r.label("read back through ov_comment");
  }
  if (dup_case || has_zero) r.nontriv(fnv1a(cd.data(), cd.size()) ^ mix64(total * 31 + L.size()));
  if (r.want_sample()) r.sample(cd);
  return true;
}
