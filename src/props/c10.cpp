// C10: decoded audio does not depend on how the bytes are delivered.
#include "../vfmodel.h"
const char *prop_id() { return "C10"; }

// packet-level path: ogg_sync fed in chunks, one ogg_stream per link, decoder_example.c call pattern
static bool sync_decode(const std::vector<uint8_t> &bytes, Bulk &chunks, int chunkmode, std::vector<PCM> &links, std::string &err) {
  ogg_sync_state oy; ogg_sync_init(&oy);
  ogg_stream_state os; bool have_os = false; vorbis_info vi; vorbis_comment vc; vorbis_dsp_state vd; vorbis_block vb;
  bool have_vi = false, have_vd = false; int hdrs = 0; size_t pos = 0; bool ok = true;
  auto close_link = [&]() {
    if (have_vd) { vorbis_block_clear(&vb); vorbis_dsp_clear(&vd); have_vd = false; }
    if (have_vi) { vorbis_comment_clear(&vc); vorbis_info_clear(&vi); have_vi = false; }
    if (have_os) { ogg_stream_clear(&os); have_os = false; }
  };
  while (ok) {
    ogg_page og; int pr = ogg_sync_pageout(&oy, &og);
    if (pr < 0) { err = "ogg_sync_pageout reports a hole"; ok = false; break; }
    if (pr == 0) {
      if (pos >= bytes.size()) break;
      size_t n = chunkmode == 0 ? 4096 : chunkmode == 1 ? 1 : 1 + chunks.below(5000);
      n = std::min(n, bytes.size() - pos);
      char *b = ogg_sync_buffer(&oy, (long)n); memcpy(b, bytes.data() + pos, n); ogg_sync_wrote(&oy, (long)n); pos += n;
      continue;
    }
    if (ogg_page_bos(&og)) {
      close_link();
      ogg_stream_init(&os, ogg_page_serialno(&og)); have_os = true;
      vorbis_info_init(&vi); vorbis_comment_init(&vc); have_vi = true; hdrs = 0;
      links.push_back(PCM());
    }
    if (!have_os) { err = "page before any BOS"; ok = false; break; }
    if (ogg_stream_pagein(&os, &og) < 0) { err = "ogg_stream_pagein failed"; ok = false; break; }
    ogg_packet op; int r;
    while ((r = ogg_stream_packetout(&os, &op)) != 0) {
      if (r < 0) { err = "ogg_stream_packetout reports a hole"; ok = false; break; }
      if (hdrs < 3) {
        if (vorbis_synthesis_headerin(&vi, &vc, &op) < 0) { err = "headerin failed"; ok = false; break; }
        if (++hdrs == 3) {
          if (vorbis_synthesis_init(&vd, &vi) != 0) { err = "synthesis_init failed"; ok = false; break; }
          vorbis_block_init(&vd, &vb); have_vd = true; links.back().assign(vi.channels, {});
        }
        continue;
      }
      if (vorbis_synthesis(&vb, &op) != 0) { err = "vorbis_synthesis rejected a packet"; ok = false; break; }
      if (vorbis_synthesis_blockin(&vd, &vb) != 0) { err = "blockin failed"; ok = false; break; }
      float **pcm; int m;
      while ((m = vorbis_synthesis_pcmout(&vd, &pcm)) > 0) { for (int c = 0; c < vi.channels; c++) links.back()[c].insert(links.back()[c].end(), pcm[c], pcm[c] + m); vorbis_synthesis_read(&vd, m); }
    }
  }
  close_link(); ogg_sync_clear(&oy);
  return ok;
}

static void c10_gain(float **pcm, long channels, long samples, void *param) { float g = *(float *)param; for (long c = 0; c < channels; c++) for (long i = 0; i < samples; i++) pcm[c][i] *= g; }

bool prop_run(Tape &t, Report &r) {
  ChainOpts o; o.maxlinks = 4; o.gp_offset_pct = 8; o.vgen_pct = g_tape_gen >= 3 ? 25 : 0;
  Chain c; GT g; std::vector<LinkMeta> meta; std::string desc;
  if (!gen_chain(t, r, o, c, g, meta, desc)) return false;
  size_t k = c.links.size();
  r.label(sfmt("links=%zu", k));
  int paths_nonconst = 0;
  // --- vorbisfile, seekable (0), streaming with NULL seek/tell (1), streaming with a seek callback that always fails (2)
  for (int path = 0; path < 3; path++) {
    MemSrc ms; ms.data = &c.bytes; ms.read_mode = t.below(3); ms.sched = Bulk(t.raw() | 1); ms.budget = -1;
    int reqmode = t.below(3); Bulk rq(t.raw() | 1);
    long ib = 0; if (t.chance(1, 3)) ib = (long)t.below((uint32_t)std::min<size_t>(c.bytes.size(), 9000) + 1);
    std::string pd = sfmt("path=%s read_mode=%d reqmode=%d initial=%ld", path == 0 ? "seekable" : path == 1 ? "streaming(NULL seek)" : "streaming(seek fails)", ms.read_mode, reqmode, ib);
    if (ms.read_mode || reqmode) paths_nonconst++;
    if (ib) r.label("initial buffer");
    if (ms.read_mode == 1) r.label("1-byte reads");
    ov_callbacks cb = ms_callbacks(path == 0);
    if (path == 2) { cb.seek_func = ms_seek_fail; cb.tell_func = ms_tell; }
    if (path == 0) ib = 0;   // with an initial buffer a seekable source would have to be positioned after it; documented for streaming use
    ms.pos = ib;
    OggVorbis_File vf;
    int orr = ov_open_callbacks(&ms, &vf, ib ? (const char *)c.bytes.data() : NULL, ib, cb);
    if (orr != 0) return r.fail("ov_open_callbacks=%d (%s) on an intact stream [%s]", orr, pd.c_str(), desc.c_str());
    if ((ov_seekable(&vf) != 0) != (path == 0)) { ov_clear(&vf); return r.fail("ov_seekable=%ld (%s) [%s]", ov_seekable(&vf), pd.c_str(), desc.c_str()); }
    std::vector<PCM> pl; std::vector<long> neg;
    int lastbs = -1; int64_t got = 0; bool fail = false; std::string why;
    bool intread = t.chance(1, 3); if (intread) { r.label("ov_read (integer) path"); pd += " ov_read"; }
    // the integer path through ov_read_filter with a gain: each sample must pass the application's filter exactly once whatever lengths are asked for
    float fgain = 1.f; bool filt = intread && g_tape_gen >= 3 && t.chance(1, 2); if (filt) { fgain = t.chance(1, 2) ? 0.5f : -0.75f; r.label("ov_read_filter (gain) path"); pd += sfmt(" filter x%g", (double)fgain); }
    std::vector<char> ibuf(20000);
    for (;;) {
      float **pcm; int bs = -7; int req = reqmode == 0 ? 4096 : reqmode == 1 ? 1 + (int)rq.below(8192) : 1 + (int)rq.below(40);
      long n;
      if (intread) {
        int chn = ov_info(&vf, -1) ? ov_info(&vf, -1)->channels : 1;   // channels of the link the handle is in before the call (may change inside it)
        int len = req * 2; if (len < 2 * 8) len = 2 * 8;                 // at least one frame for any generated channel count
        n = filt ? ov_read_filter(&vf, ibuf.data(), len, 0, 2, 1, &bs, c10_gain, &fgain) : ov_read(&vf, ibuf.data(), len, 0, 2, 1, &bs);
        if (n == 0) break;
        if (n < 0) { why = sfmt("ov_read returned %ld after %lld samples", n, (long long)got); fail = true; break; }
        if (n > len) { why = sfmt("ov_read returned %ld > buffer %d", n, len); fail = true; break; }
        if (bs < lastbs || bs < 0 || (size_t)bs >= k) { why = sfmt("*bitstream %d after %d", bs, lastbs); fail = true; break; }
        lastbs = bs; int ch = c.links[bs].channels; (void)chn;
        if (n % (2 * ch)) { why = sfmt("ov_read returned %ld bytes in link %d with %d channels: not whole frames", n, bs, ch); fail = true; break; }
        long frames = n / (2 * ch);
        if ((size_t)bs >= pl.size()) pl.resize(bs + 1);
        if (pl[bs].empty()) pl[bs].assign(ch, {});
        for (long i = 0; i < frames; i++) for (int q = 0; q < ch; q++) { int16_t v; memcpy(&v, &ibuf[(size_t)(i * ch + q) * 2], 2); pl[bs][q].push_back((float)v); }
        got += frames; continue;
      }
      n = ov_read_float(&vf, &pcm, req, &bs);
      if (n == 0) break;
      if (n < 0) { why = sfmt("ov_read_float returned %ld after %lld samples", n, (long long)got); fail = true; break; }
      if (n > req) { why = sfmt("returned %ld > requested %d", n, req); fail = true; break; }
      if (bs < lastbs || bs < 0) { why = sfmt("*bitstream %d after %d", bs, lastbs); fail = true; break; }
      lastbs = bs;
      if ((size_t)bs >= k) { why = sfmt("*bitstream=%d with %zu links", bs, k); fail = true; break; }
      int ch = ov_info(&vf, -1)->channels;
      if (ch != c.links[bs].channels) { why = sfmt("link %d reported with %d channels, has %d", bs, ch, c.links[bs].channels); fail = true; break; }
      if ((size_t)bs >= pl.size()) pl.resize(bs + 1);
      if (pl[bs].empty()) pl[bs].assign(ch, {});
      for (int q = 0; q < ch; q++) pl[bs][q].insert(pl[bs][q].end(), pcm[q], pcm[q] + n);
      got += n;
    }
    ov_clear(&vf);
    if (fail) return r.fail("%s (%s) [%s]", why.c_str(), pd.c_str(), desc.c_str());
    if (ms.closes != 1) return r.fail("close callback ran %ld times (%s) [%s]", ms.closes, pd.c_str(), desc.c_str());
    for (size_t i = 0; i < k; i++) {
      if (g.len[i] == 0) { if (i < pl.size() && !pl[i].empty() && !pl[i][0].empty()) return r.fail("zero-sample link %zu delivered audio (%s) [%s]", i, pd.c_str(), desc.c_str()); continue; }
      if (i >= pl.size()) return r.fail("link %zu never delivered (%s) [%s]", i, pd.c_str(), desc.c_str());
      std::string w2;
      if (intread) {   // integer path: the expected words are the rounded, clipped floats of the packet-level decode
        // a NaN sample (synthetic links can decode to one) has no defined 16-bit word: that position is not compared
        PCM want = g.pcm[i];
        for (size_t q = 0; q < want.size(); q++) for (size_t j = 0; j < want[q].size(); j++) {
          float x = want[q][j];
          if (x != x) { if (q < pl[i].size() && j < pl[i][q].size()) want[q][j] = pl[i][q][j]; else want[q][j] = 0; }
          else want[q][j] = (float)expect_i16(filt ? x * fgain : x);
        }
        if (!pcm_equal(pl[i], want, &w2)) return r.fail("link %zu (ov_read, 16-bit) differs from the converted packet-level decode: %s (%s) [%s]", i, w2.c_str(), pd.c_str(), desc.c_str());
        continue;
      }
      if (!pcm_equal(pl[i], g.pcm[i], &w2)) return r.fail("link %zu differs from packet-level decode: %s (%s) [%s]", i, w2.c_str(), pd.c_str(), desc.c_str());
    }
  }
  // --- packet API through ogg_sync in chunks
  {
    int chunkmode = t.below(3); Bulk ck(t.raw() | 1); std::vector<PCM> pl; std::string err;
    if (chunkmode) paths_nonconst++;
    if (!sync_decode(c.bytes, ck, chunkmode, pl, err)) return r.fail("packet-level path: %s (chunkmode %d) [%s]", err.c_str(), chunkmode, desc.c_str());
    if (pl.size() != k) return r.fail("packet-level path saw %zu links of %zu [%s]", pl.size(), k, desc.c_str());
    for (size_t i = 0; i < k; i++) { if (g.len[i] == 0) continue; std::string w2; if (!pcm_equal(pl[i], g.pcm[i], &w2)) return r.fail("packet-level path link %zu: %s [%s]", i, w2.c_str(), desc.c_str()); }
  }
  if (paths_nonconst >= 1) r.nontriv(fnv1a(desc.data(), desc.size()) ^ t.pos);
  if (k >= 2) r.label("chained (streaming crosses link boundaries)");
  if (r.want_sample()) r.sample(desc);
  return true;
}
