// C02: the packet-level decoder is memory-safe and terminates on arbitrary input.
// Structure-aware generation: valid headers and packets from vgen / the encoder, then field-level mutation of the setup and
// identification headers at the exact bit positions of their fields (boundary values), byte-level damage, and an operation script
// over the whole packet-level decode API.  The memory oracle is ASan/UBSan/LSan plus the 8 MiB stack; the semantic oracle checks
// return-code sets, pcmout bounds and that the clear functions always work.
#include "../vfmodel.h"
#define class class_   /* lib/backends.h uses the identifier */
extern "C" {
#include "codec_internal.h"
}
#undef class
#undef max
#undef min
const char *prop_id() { return "C02"; }

// Heap accounting ("within a ... heap budget fixed by the format's field widths rather than growing without bound"): the bytes the
// library holds are the sum, over library calls, of the change of the allocator's live-byte count across the call (the harness
// allocates nothing inside a call).  Available in the ASan build (the deciding build); elsewhere the count is 0 and the clauses are inert.
#if defined(__has_feature)
#if __has_feature(address_sanitizer)
#include <sanitizer/allocator_interface.h>
#define C02_LIVE() ((long)__sanitizer_get_current_allocated_bytes())
#endif
#endif
#ifndef C02_LIVE
#define C02_LIVE() 0L
#endif
// What the accepted headers entitle the library to hold (a deliberately generous closed form, four times what the structures the
// fields describe need): static books (a length per entry, an explicit value table of entries*dim), decode books (value table of
// entries*dim floats, codeword / index / length tables, a first-level lookup table), one residue decode map per residue (bounded by its
// phrase book), PCM and block storage proportional to channels * long block size, transforms proportional to the block sizes.
static double c02_budget(const vorbis_info &vi, long hdr_bytes, bool decoder) {
  double b = 262144 + 16.0 * (double)hdr_bytes;
  const codec_setup_info *ci = (const codec_setup_info *)vi.codec_setup; if (!ci) return b;
  b += 1 << 19;
  double books = 0, maxbook = 0; int nb = ci->books < 0 ? 0 : ci->books > 256 ? 256 : ci->books;
  for (int i = 0; i < nb; i++) { const static_codebook *c = ci->book_param[i]; double e, d;   // (a successful vorbis_synthesis_init releases the static books and keeps the decode books)
    if (c) { e = (double)c->entries; d = (double)c->dim; } else if (ci->fullbooks) { e = (double)ci->fullbooks[i].entries; d = (double)ci->fullbooks[i].dim; } else continue;
    if (e < 0 || d < 0) continue;
    double one = e * (d * 12.0 + 48.0) + 16384.0; books += one; if (one > maxbook) maxbook = one; }
  double bs1 = (double)ci->blocksizes[1], ch = (double)(vi.channels > 0 ? vi.channels : 1); if (bs1 < 64) bs1 = 64; if (bs1 > 8192) bs1 = 8192;
  b += 2.0 * books;
  if (decoder) b += 2.0 * (64.0 * maxbook + ch * bs1 * 64.0 + ch * 8192.0 * 32.0 + 64.0 * bs1 * 32.0);
  return b;
}

// Steady state: decoding the same packets over and over must not make the library hold more and more memory.  After two passes over
// the stream every per-packet need has been seen (block-local storage is consolidated to the largest need by then), so the bytes held
// after pass 2 and after the last pass must be EQUAL.
static bool c02_soak(Tape &t, Report &r, const LStream &s, const std::string &cd) {
  vorbis_info vi; vorbis_comment vc; vorbis_dsp_state vd; vorbis_block vb; vorbis_info_init(&vi); vorbis_comment_init(&vc);
  for (int i = 0; i < 3; i++) { ogg_packet op; s.hdr[i].to_ogg(op); if (vorbis_synthesis_headerin(&vi, &vc, &op)) { vorbis_comment_clear(&vc); vorbis_info_clear(&vi); r.label("soak: headers not accepted (mutated)"); return true; } }
  if (vorbis_synthesis_init(&vd, &vi)) { vorbis_dsp_clear(&vd); vorbis_comment_clear(&vc); vorbis_info_clear(&vi); r.label("soak: init refused"); return true; }
  vorbis_block_init(&vd, &vb);
  int passes = 4 + (int)t.below(s.channels > 16 || s.bs1 > 2048 ? 4 : 24); int style = (int)t.below(4);   // 0 plain, 1 restart between passes, 2 lapout each packet, 3 a fresh block each pass
  long live2 = 0, liveN = 0, lib = 0; bool ok = true; long decoded = 0;
  for (int p = 0; p < passes && ok; p++) {
    if (p && style == 1) { long b0 = C02_LIVE(); vorbis_synthesis_restart(&vd); lib += C02_LIVE() - b0; }
    if (p && style == 3) { long b0 = C02_LIVE(); vorbis_block_clear(&vb); vorbis_block_init(&vd, &vb); lib += C02_LIVE() - b0; }
    for (size_t k = 0; k < s.audio.size(); k++) {
      ogg_packet op; s.audio[k].to_ogg(op); op.granulepos = -1; op.e_o_s = 0; op.packetno = (ogg_int64_t)(p * s.audio.size() + k);
      long b0 = C02_LIVE();
      if (vorbis_synthesis(&vb, &op) == 0 && vorbis_synthesis_blockin(&vd, &vb) == 0) decoded++;
      float **pcm; int n; while ((n = vorbis_synthesis_pcmout(&vd, &pcm)) > 0) vorbis_synthesis_read(&vd, n);
      if (style == 2) vorbis_synthesis_lapout(&vd, &pcm);
      lib += C02_LIVE() - b0;
    }
    if (p == 1) live2 = lib; liveN = lib;
  }
  vorbis_block_clear(&vb); vorbis_dsp_clear(&vd); vorbis_comment_clear(&vc); vorbis_info_clear(&vi);
  r.label("soak: repeated decode of one stream"); if (decoded) r.label("soak: decoded blocks");
  if (liveN != live2) return r.fail("the decoder holds %ld more bytes after %d passes over the same %zu packets than after 2 passes (style %d): memory grows with the number of packets decoded [%s]", liveN - live2, passes, s.audio.size(), style, cd.c_str());
  r.nontriv(fnv1a(cd.data(), cd.size()) ^ (uint64_t)passes * 977 ^ (uint64_t)style);
  return true;
}

static bool in_set(long v, std::initializer_list<long> s) { for (long x : s) if (x == v) return true; return false; }
template <class T> static bool is_zero(const T &x) { const unsigned char *p = (const unsigned char *)&x; for (size_t i = 0; i < sizeof x; i++) if (p[i]) return false; return true; }

bool prop_run(Tape &t, Report &r) {
  // ---- material: three headers + audio packets
  LStream s; std::string desc; std::vector<vs::Field> idf, setf; bool synthetic = !t.chance(1, 4); std::vector<uint64_t> counts;   // how many books, floors, ... the set-up declares: the natural boundary values of every index field
  auto note_counts = [&](const vs::Setup &q) { for (uint64_t n : {(uint64_t)q.books.size(), (uint64_t)q.floors.size(), (uint64_t)q.residues.size(), (uint64_t)q.mappings.size(), (uint64_t)q.modes.size(), (uint64_t)q.channels}) { counts.push_back(n); counts.push_back(n + 1); counts.push_back(n + 2); if (n) counts.push_back(n - 1); } };
  if (synthetic) {
    vg::GenOpts go; go.simple = t.chance(1, 2); go.maxch = t.chance(1, 10) ? 255 : 6; go.max_bslog = t.chance(1, 6) ? 13 : 10; if (t.chance(1, 12)) go.huge_book_log = 10 + (int)t.below(13);
    vg::GenStream gs; vg::gen_stream(t, go, 2 + (int)t.below(10), gs, 3); if (!gs.ok) return r.harness("vgen: %s", gs.err.c_str());
    s = gs.ls; desc = s.desc; vs::write_id(gs.s, &idf); vs::write_setup(gs.s, &setf); note_counts(gs.s); if (go.huge_book_log) { r.label("huge ordered codebook"); desc += sfmt(" hugebook=2^%d", go.huge_book_log); }
  } else {
    EncCfg cfg = gen_link_cfg(t, 6); Signal sig = Signal::gen(t); std::string err; std::vector<int> pieces{6000}; std::vector<char> da;
    if (encode_stream(cfg, sig, 6000, pieces, da, s, err)) { cfg = EncCfg(); if (encode_stream(cfg, sig, 6000, pieces, da, s, err)) return r.harness("encode: %s", err.c_str()); }
    desc = s.desc; vs::Setup sp; if (vs::parse_id(s.hdr[0].data, sp).empty() && vs::parse_setup(s.hdr[2].data, sp).empty()) { vs::write_id(sp, &idf); vs::write_setup(sp, &setf); note_counts(sp); }
    r.label("encoder stream");
  }
  // ---- mutations
  int nmut = t.weighted({3, 6, 2, 1, 1}); std::string md;
  for (int m = 0; m < nmut; m++) {
    int kind = t.weighted({6, 2, 2, 2, 2, 1, 1});
    if (kind == 0 && !setf.empty()) {   // a setup-header field set to a boundary value
      // gen 3: half of the field mutations choose the KIND of field first (codebook dimension, floor 1 post, residue begin, ...) so that the rare
      // kinds are hit as often as the thousands of codeword lengths, and may copy or nudge the value of a sibling field (duplicates, off-by-one)
      size_t fi = 0; int sel = 0;
      if (g_tape_gen >= 3 && t.chance(1, 2)) {
        int cats[32], nc = 0; bool seen[32] = {false}; for (auto &ff : setf) if (ff.cat > 0 && ff.cat < 32 && !seen[ff.cat]) { seen[ff.cat] = true; cats[nc++] = ff.cat; }
        int cat = cats[t.below((uint32_t)nc)]; std::vector<size_t> idx; for (size_t q = 0; q < setf.size(); q++) if (setf[q].cat == cat) idx.push_back(q);
        fi = idx[t.spread((uint32_t)idx.size())]; sel = g_tape_gen >= 4 && !counts.empty() ? (t.below(5) >= 2 ? 13 + (int)t.below(4) : (int)t.below(13)) : (int)t.below(10);   // gen 4: three in five go boundary seeking md += sfmt("cat%d:", cat);
        if (sel >= 13) {   // gen 4: acceptance-boundary seeking - bisect, with vorbis_synthesis_headerin itself, the largest (or smallest) value of this field
          // that the library still accepts, and put the field exactly there: an index or size check that is off by one lets through precisely that value
          const vs::Field &f0 = setf[fi]; uint64_t mv = f0.bits >= 63 ? (~0ull >> 1) : ((1ull << f0.bits) - 1); long probes = 0;
          auto accepted = [&](uint64_t v) { std::vector<uint8_t> tmp = s.hdr[2].data; vs::patch_field(tmp, f0, v); vorbis_info pvi; vorbis_comment pvc; vorbis_info_init(&pvi); vorbis_comment_init(&pvc); bool ok = true; probes++;
            for (int h = 0; h < 3 && ok; h++) { ogg_packet po; s.hdr[h].to_ogg(po); if (h == 2) { po.packet = tmp.data(); po.bytes = (long)tmp.size(); } ok = vorbis_synthesis_headerin(&pvi, &pvc, &po) == 0; }
            vorbis_comment_clear(&pvc); vorbis_info_clear(&pvi); return ok; };
          uint64_t cur = f0.val & mv, v0 = cur; bool up = sel != 16;
          if (accepted(cur)) {
            if (up) { if (accepted(mv)) v0 = mv; else { uint64_t lo = cur, hi = mv; while (hi - lo > 1 && probes < 80) { uint64_t mid = lo + (hi - lo) / 2; if (accepted(mid)) lo = mid; else hi = mid; } v0 = lo; } }
            else { if (accepted(0)) v0 = 0; else { uint64_t lo = 0, hi = cur; while (hi - lo > 1 && probes < 80) { uint64_t mid = lo + (hi - lo) / 2; if (accepted(mid)) hi = mid; else lo = mid; } v0 = hi; } }
            r.label(v0 != cur ? "field moved to its acceptance boundary" : "field already at its acceptance boundary");
          } else r.label("boundary seeking: headers already refused");
          vs::patch_field(s.hdr[2].data, f0, v0); md += sfmt("setup[bit %zu,%d]=%llu (%s accepted value) ", f0.pos, f0.bits, (unsigned long long)v0, up ? "largest" : "smallest"); continue; }
        if (sel >= 6) { const vs::Field &f0 = setf[fi]; uint64_t mv = f0.bits >= 64 ? ~0ull : ((1ull << f0.bits) - 1), v0;
          if (sel == 6) v0 = setf[idx[t.spread((uint32_t)idx.size())]].val; else if (sel == 7) v0 = f0.val + 1; else if (sel == 8) v0 = f0.val - 1; else if (sel >= 10) v0 = counts[t.below((uint32_t)counts.size())];   /* gen 4: an index field set to the number of objects of some kind, +-1 (index fields are often stored off by one) */ else { static const uint64_t odd[] = {62, 63, 64, 100, 255, 256, 4096, 2, 3, 7, 8, 9}; v0 = odd[t.below(12)]; }
          v0 &= mv; vs::patch_field(s.hdr[2].data, f0, v0); md += sfmt("setup[bit %zu,%d]=%llu ", f0.pos, f0.bits, (unsigned long long)v0); continue; }
      } else fi = t.spread((uint32_t)setf.size());
      const vs::Field &f = setf[fi]; uint64_t maxv = f.bits >= 64 ? ~0ull : ((1ull << f.bits) - 1); uint64_t v;
      switch (sel ? sel : (int)t.below(6)) { case 0: v = 0; break; case 1: v = 1; break; case 2: v = maxv; break; case 3: v = maxv - 1; break; case 4: v = maxv / 2 + 1; break; default: v = ((uint64_t)t.raw() << 16 ^ t.raw()) & maxv; }
      vs::patch_field(s.hdr[2].data, f, v); md += sfmt("setup[bit %zu,%d]=%llu ", f.pos, f.bits, (unsigned long long)v);
    } else if (kind == 1 && !idf.empty()) { const vs::Field &f = idf[t.below((uint32_t)idf.size())]; uint64_t maxv = (1ull << f.bits) - 1; static const uint64_t vals[] = {0, 1, 5, 6, 13, 14, 15, 255, 256, 0x7fffffff, 0xffffffffull}; uint64_t v = vals[t.below(11)] & maxv; vs::patch_field(s.hdr[0].data, f, v); md += sfmt("id[bit %zu,%d]=%llu ", f.pos, f.bits, (unsigned long long)v); }
    else if (kind == 2) { int h = (int)t.below(3); auto &dd = s.hdr[h].data; if (!dd.empty()) { dd.resize(t.spread((uint32_t)dd.size() + 1)); md += sfmt("hdr%d truncated to %zu ", h, dd.size()); } }
    else if (kind == 3) { int h = (int)t.below(3); auto &dd = s.hdr[h].data; int nb = 1 + (int)t.below(8); Bulk fl(t.raw() | 1); for (int b = 0; b < nb && !dd.empty(); b++) { size_t bit = fl.below((uint32_t)dd.size() * 8); dd[bit >> 3] ^= (uint8_t)(1u << (bit & 7)); } md += sfmt("hdr%d %d bits flipped ", h, nb); }
    else if (kind == 4 && !s.audio.empty()) { auto &dd = s.audio[t.below((uint32_t)s.audio.size())].data; int w = t.below(3); if (w == 0) dd.resize(t.spread((uint32_t)dd.size() + 1)); else if (w == 1 && !dd.empty()) { Bulk fl(t.raw() | 1); int nb = 1 + (int)t.below(12); for (int b = 0; b < nb; b++) { size_t bit = fl.below((uint32_t)dd.size() * 8); dd[bit >> 3] ^= (uint8_t)(1u << (bit & 7)); } } else { Bulk rb(t.raw() | 1); dd.resize(1 + rb.below(300)); for (auto &x : dd) x = (uint8_t)rb.below(256); } md += "audio packet damaged "; }
    else if (kind == 5) { std::swap(s.hdr[t.below(3)], s.hdr[t.below(3)]); md += "headers reordered "; }
    else if (kind == 6) { Bulk rb(t.raw() | 1); Pkt p; p.data.resize(rb.below(2000)); for (auto &x : p.data) x = (uint8_t)rb.below(256); s.hdr[t.below(3)] = p; md += "a header replaced by random bytes "; }
  }
  std::string cd = desc + " | " + md;
  if (g_tape_gen >= 4 && t.chance(1, 10)) return c02_soak(t, r, s, cd);
  // ---- decode script
  vorbis_info vi; vorbis_comment vc; vorbis_dsp_state vd; vorbis_block vb; memset(&vd, 0x5b, sizeof vd); memset(&vb, 0x5b, sizeof vb);
  long lib_live = 0, hdr_bytes = 0; bool ever_decoder = false;
  vorbis_info_init(&vi); vorbis_comment_init(&vc); bool have_vd = false, have_vb = false, block_ok = false, hs_after_init = false; int hdr_ok = 0; long decoded_blocks = 0; std::string hist; int bs1 = 0; hist.reserve(1 << 15);   // (the history string must not grow inside the accounted region)
  auto fin = [&]() { for (int round = 0; round < 2; round++) { if (have_vb) vorbis_block_clear(&vb); if (have_vd) vorbis_dsp_clear(&vd); vorbis_comment_clear(&vc); vorbis_info_clear(&vi); } };
  auto bail = [&](const char *fmt, long a, long b) { char buf[512]; snprintf(buf, sizeof buf, fmt, a, b); fin(); return r.fail("%s [hist %s] [%s]", buf, hist.c_str(), cd.c_str()); };
  int nops = 4 + (int)t.below(40); size_t nexthdr = 0, nextpkt = 0; int cyc = 0; bool straight = !t.chance(1, 4);   // straight: the decoder_example.c order first (headers, init, then mostly synthesis/blockin/pcmout cycles), else free-form
  // gen 3: the decoder_example order with the half-rate switch thrown before the decoder is built and/or again right after (buffers are sized at
  // init from the setting of that moment, the per-call code reads the live setting)
  bool hs_before_init = g_tape_gen >= 3 && straight && t.chance(1, 5), hs_after = g_tape_gen >= 3 && straight && t.chance(1, 5); int forced8 = -1;
  for (int i = 0; i < nops; i++) {
    int op;
    if (straight && nexthdr < 3) op = 0;
    else if (straight && !have_vd && hdr_ok == 3 && hs_before_init) { op = 8; forced8 = 1; hs_before_init = false; nops++; }
    else if (straight && have_vd && hs_after) { op = 8; forced8 = (int)t.below(2); hs_after = false; nops++; }
    else if (straight && !have_vd && hdr_ok == 3 && i < (g_tape_gen >= 3 ? 8 : 6)) op = 1;
    else if (straight && have_vb && t.below(4) != 0) { op = block_ok ? 4 : (cyc == 2 ? 5 : 2); cyc = op == 2 ? 1 : op == 4 ? 2 : 0; }
    else op = t.weighted({3, 2, 8, 2, 4, 4, 1, 1, 1, 2, 1, 1, 1, 1, 1});
    if (g_tape_gen >= 4 && i) {   // heap budget, evaluated on what the previous calls left behind
      double bud = c02_budget(vi, hdr_bytes, ever_decoder); r.metric_max("bytes held by the library / budget from the accepted header fields", (double)lib_live / bud);
      if ((double)lib_live > bud) return bail("the library holds %ld bytes, the fields of the accepted headers entitle it to %ld", lib_live, (long)bud);
    }
    long live_before = C02_LIVE();
    if (op == 0) hdr_bytes += (long)std::max(s.hdr[0].data.size(), std::max(s.hdr[1].data.size(), s.hdr[2].data.size()));
    if (op == 1) ever_decoder = true;
    struct Acc { long &l; long b; ~Acc() { l += C02_LIVE() - b; } } acc_{lib_live, live_before};
    switch (op) {
      case 0: { Pkt &p = nexthdr < 3 ? s.hdr[nexthdr] : s.hdr[t.below(3)]; nexthdr++; ogg_packet o2; p.to_ogg(o2); if (t.chance(1, 10)) o2.b_o_s = !o2.b_o_s; if (have_vd) break;   // headers after init: the info is owned by the running decoder (not generated)
        int rr = vorbis_synthesis_headerin(&vi, &vc, &o2); hist += sfmt("hdr=%d ", rr);
        if (!in_set(rr, {0, OV_ENOTVORBIS, OV_EBADHEADER, OV_EVERSION, OV_EFAULT})) return bail("vorbis_synthesis_headerin returned the undocumented code %ld", rr, 0);
        if (rr == 0) hdr_ok++; else { r.label("header rejected"); } } break;
      case 1: { if (have_vd || !vi.codec_setup) break; int rr = vorbis_synthesis_init(&vd, &vi); hist += sfmt("init=%d ", rr);
        if (rr == 0) { have_vd = true; bs1 = vorbis_info_blocksize(&vi, 1); if (vorbis_block_init(&vd, &vb) == 0) have_vb = true; r.label("synthesis_init succeeded"); } else { vorbis_dsp_clear(&vd); if (!is_zero(vd)) return bail("vorbis_dsp_clear after a failed init leaves a non-zero structure", 0, 0); r.label("synthesis_init failed"); } } break;
      case 2: case 3: { if (!have_vb || s.audio.empty()) break; Pkt &p = t.chance(1, 6) ? s.audio[t.below((uint32_t)s.audio.size())] : s.audio[nextpkt++ % s.audio.size()]; ogg_packet o2; p.to_ogg(o2);
        int gsel = t.weighted({5, 1, 1, 1, 1}); if (gsel == 1) o2.granulepos = -1; else if (gsel == 2) o2.granulepos = 0; else if (gsel == 3) o2.granulepos = -(int64_t)t.below(100000) - 2; else if (gsel == 4) o2.granulepos = (int64_t)t.raw() << 20; if (t.chance(1, 8)) o2.e_o_s = !o2.e_o_s; if (t.chance(1, 8)) o2.packetno = (int64_t)t.below(1000);
        int rr = op == 2 ? vorbis_synthesis(&vb, &o2) : vorbis_synthesis_trackonly(&vb, &o2); hist += sfmt("%s=%d ", op == 2 ? "syn" : "track", rr);
        if (!in_set(rr, {0, OV_ENOTAUDIO, OV_EBADPACKET})) return bail("vorbis_synthesis%s returned the undocumented code %ld", rr, 0);
        block_ok = rr == 0; if (rr) r.label("audio packet rejected"); } break;
      case 4: { if (!have_vb || !block_ok) break; int rr = vorbis_synthesis_blockin(&vd, &vb); hist += sfmt("blockin=%d ", rr); block_ok = false;
        if (!in_set(rr, {0, OV_EINVAL})) return bail("vorbis_synthesis_blockin returned the undocumented code %ld", rr, 0); if (rr == 0) decoded_blocks++; } break;
      case 5: { if (!have_vd) break; float **pcm = nullptr; int n = vorbis_synthesis_pcmout(&vd, &pcm); hist += sfmt("pcmout=%d ", n);
        if (hs_after_init) { hist += "(pcmout after a post-init halfrate toggle: not interpreted) "; break; }   // the decoder's buffers belong to the setting it was initialised with (vorbisfile re-initialises); only the library's own memory safety is observed
        if (n < 0 || n > bs1) return bail("vorbis_synthesis_pcmout returned %ld samples (long block size %ld)", n, bs1);
        double acc = 0; for (int c = 0; n > 0 && c < vi.channels; c++) for (int k = 0; k < n; k++) acc += pcm[c][k];   // every returned sample is readable
        int want = t.chance(1, 5) ? n + 1 + (int)t.below(100) : (n ? (int)t.below((uint32_t)n + 1) : 0); int rr = vorbis_synthesis_read(&vd, want); (void)acc;
        if (!in_set(rr, {0, OV_EINVAL}) || (want <= n && rr != 0)) return bail("vorbis_synthesis_read(%ld) returned %ld", want, rr); } break;
      case 6: { if (!have_vd) break; float **pcm = nullptr; int n = vorbis_synthesis_lapout(&vd, &pcm); hist += sfmt("lapout=%d ", n); if (hs_after_init) break; if (n < 0 || n > 2 * bs1) return bail("vorbis_synthesis_lapout returned %ld (long block size %ld)", n, bs1); double acc = 0; for (int c = 0; n > 0 && c < vi.channels; c++) for (int k = 0; k < n; k++) acc += pcm[c][k]; (void)acc; } break;
      case 7: { if (!have_vd) break; int rr = vorbis_synthesis_restart(&vd); hist += sfmt("restart=%d ", rr); block_ok = false; if (!in_set(rr, {0, -1})) return bail("vorbis_synthesis_restart returned %ld", rr, 0); } break;
      case 8: { if (!vi.codec_setup || hdr_ok < 1) break; int f = forced8 >= 0 ? forced8 : (int)t.below(2); forced8 = -1; int rr = vorbis_synthesis_halfrate(&vi, f); if (have_vd) { hs_after_init = true; r.label("halfrate toggled after init"); } hist += sfmt("halfrate(%d)=%d ", f, rr); if (!in_set(rr, {0, -1})) return bail("vorbis_synthesis_halfrate returned %ld", rr, 0); } break;   // also after init: the property quantifies over every order of these calls
      case 9: { if (!vi.codec_setup || s.audio.empty() || hdr_ok < 3) break; ogg_packet o2; s.audio[t.below((uint32_t)s.audio.size())].to_ogg(o2); long rr = vorbis_packet_blocksize(&vi, &o2); if (!(rr > 0 || in_set(rr, {OV_ENOTAUDIO, OV_EBADPACKET, OV_EFAULT}))) return bail("vorbis_packet_blocksize returned %ld", rr, 0); } break;
      case 10: { int a = vorbis_info_blocksize(&vi, 0), b = vorbis_info_blocksize(&vi, 1); if (hdr_ok >= 1 && vi.codec_setup && !(a >= 64 && b >= a && b <= 8192)) return bail("vorbis_info_blocksize reports %ld/%ld after an accepted identification header", a, b); } break;
      case 11: { if (!have_vd) break; double gt = vorbis_granule_time(&vd, (int64_t)t.raw()); (void)gt; } break;
      case 12: { if (!have_vb) break; vorbis_block_clear(&vb); if (!is_zero(vb)) return bail("vorbis_block_clear leaves a non-zero structure", 0, 0); vorbis_block_init(&vd, &vb); block_ok = false; } break;
      case 13: { ogg_packet o2; s.hdr[t.below(3)].to_ogg(o2); int rr = vorbis_synthesis_idheader(&o2); if (!in_set(rr, {0, 1})) return bail("vorbis_synthesis_idheader returned %ld", rr, 0); } break;
      case 14: { if (!have_vd) break; if (have_vb) { vorbis_block_clear(&vb); have_vb = false; } vorbis_dsp_clear(&vd); have_vd = false; block_ok = false; hs_after_init = false; if (!is_zero(vd)) return bail("vorbis_dsp_clear leaves a non-zero structure", 0, 0); hist += "dsp_clear "; } break;
    }
  }
  fin();
  if (!is_zero(vi) || !is_zero(vc)) return r.fail("vorbis_info_clear / vorbis_comment_clear leave non-zero structures [%s]", cd.c_str());
  if (decoded_blocks) r.label("decoded at least one block"); if (nmut) r.label("mutated input");
  if (hdr_ok >= 1 && (hdr_ok == 3 || nexthdr >= 2)) r.nontriv(fnv1a(hist.data(), hist.size()) ^ fnv1a(cd.data(), cd.size()));
  if (r.want_sample()) r.sample(cd + " ops: " + hist);
  return true;
}
