// C03: vorbisfile is memory-safe and terminates on arbitrary physical streams, under arbitrary sequences of public calls.
#include "../vfmodel.h"
const char *prop_id() { return "C03"; }

static bool in_set(long v, std::initializer_list<long> s) { for (long x : s) if (x == v) return true; return false; }
// the error codes of vorbis/codec.h (OV_FALSE, OV_EOF, OV_HOLE, OV_EREAD .. OV_ENOSEEK): what a call may report besides data
static bool ov_code(long v) { return v == OV_FALSE || v == OV_EOF || v == OV_HOLE || (v <= OV_EREAD && v >= OV_ENOSEEK); }
template <class T> static bool is_zero(const T &x) { const unsigned char *p = (const unsigned char *)&x; for (size_t i = 0; i < sizeof x; i++) if (p[i]) return false; return true; }

// re-checksum everything that parses as a complete page
static void fix_crcs(std::vector<uint8_t> &b) {
  for (size_t i = 0; i + 27 <= b.size();) {
    if (memcmp(&b[i], "OggS", 4)) { i++; continue; }
    int nseg = b[i + 26]; if (i + 27 + nseg > b.size()) break; size_t body = 0; for (int s = 0; s < nseg; s++) body += b[i + 27 + s];
    if (i + 27 + nseg + body > b.size()) { i++; continue; }
    ogg_page og; og.header = &b[i]; og.header_len = 27 + nseg; og.body = &b[i + 27 + nseg]; og.body_len = (long)body; ogg_page_checksum_set(&og); i += 27 + nseg + body;
  }
}

struct Span { size_t off, len; };
static std::vector<Span> find_pages(const std::vector<uint8_t> &b) {
  std::vector<Span> v;
  for (size_t i = 0; i + 27 <= b.size();) { if (memcmp(&b[i], "OggS", 4)) { i++; continue; } int nseg = b[i + 26]; if (i + 27 + nseg > b.size()) break; size_t body = 0; for (int s = 0; s < nseg; s++) body += b[i + 27 + s]; if (i + 27 + nseg + body > b.size()) { i++; continue; } v.push_back(Span{i, 27 + nseg + body}); i += 27 + nseg + body; }
  return v;
}

bool prop_run(Tape &t, Report &r) {
  ChainOpts o; o.maxlinks = t.chance(1, 8) ? 16 : 4; o.maxN = o.maxlinks > 4 ? 3000 : 12000; o.comments = true; o.vgen_pct = 50; o.maxch = 6; if (t.chance(1, 15)) o.vgen_maxch = 255; o.half = true;
  Chain c; GT g; std::vector<LinkMeta> meta; std::string desc;
  if (!gen_chain(t, r, o, c, g, meta, desc)) return false;
  std::vector<uint8_t> bytes = c.bytes; std::string md;
  // ---- damage to the physical stream
  int ndmg = 1 + t.weighted({4, 3, 2, 1}); if (t.chance(1, 4)) ndmg = 0; bool refix = !t.chance(1, 5);
  for (int di = 0; di < ndmg; di++) {
    std::vector<Span> pg = find_pages(bytes); int kind = g_tape_gen >= 4 ? t.weighted({3, 2, 2, 3, 2, 2, 2, 2, 1, 2, 2, 1}) : t.weighted({3, 2, 2, 3, 2, 2, 2, 2, 1, 2});
    auto pick = [&]() -> Span * { return pg.empty() ? nullptr : &pg[t.spread((uint32_t)pg.size())]; };
    switch (kind) {
      case 0: { Span *p = pick(); if (p) { bytes.erase(bytes.begin() + p->off, bytes.begin() + p->off + p->len); md += "drop page; "; } } break;
      case 1: { Span *p = pick(); if (p) { std::vector<uint8_t> cp(bytes.begin() + p->off, bytes.begin() + p->off + p->len); bytes.insert(bytes.begin() + p->off, cp.begin(), cp.end()); md += "duplicate page; "; } } break;
      case 2: { Span *a = pick(), *b = pick(); if (a && b && a != b) { std::vector<uint8_t> pa(bytes.begin() + a->off, bytes.begin() + a->off + a->len); size_t dst = b->off; if (a->off < b->off) { bytes.erase(bytes.begin() + a->off, bytes.begin() + a->off + a->len); dst -= a->len; } else bytes.erase(bytes.begin() + a->off, bytes.begin() + a->off + a->len); bytes.insert(bytes.begin() + std::min(dst, bytes.size()), pa.begin(), pa.end()); md += "move page; "; } } break;
      case 3: { Span *p = pick(); if (p) { int f = t.below(5); size_t o2 = p->off; static const uint64_t gps[] = {0, 1, (uint64_t)-1, 0x7fffffffffffffffull, 0x8000000000000000ull, 1000000, 12345678901ull};
          if (f == 0) { uint64_t gp = t.chance(1, 2) ? gps[t.below(7)] : (uint64_t)t.raw(); for (int k = 0; k < 8; k++) bytes[o2 + 6 + k] = (uint8_t)(gp >> (8 * k)); md += "granulepos edited; "; }
          else if (f == 1) { uint32_t sn = t.chance(1, 2) ? (uint32_t)c.links[t.below((uint32_t)c.links.size())].serial : t.raw(); for (int k = 0; k < 4; k++) bytes[o2 + 14 + k] = (uint8_t)(sn >> (8 * k)); md += "serial number edited; "; }
          else if (f == 2) { bytes[o2 + 5] = (uint8_t)t.below(8); md += "page flags edited; "; }
          else if (f == 3) { uint32_t sq = t.raw(); for (int k = 0; k < 4; k++) bytes[o2 + 18 + k] = (uint8_t)(sq >> (8 * k)); md += "page sequence number edited; "; }
          else { bytes[o2 + 4] = (uint8_t)t.below(3); md += "stream structure version edited; "; } } } break;
      case 4: bytes.resize(t.spread((uint32_t)bytes.size() + 1)); md += sfmt("truncated to %zu; ", bytes.size()); break;
      case 5: { int nb = 1 + (int)t.below(30); Bulk fl(t.raw() | 1); for (int b = 0; b < nb && !bytes.empty(); b++) bytes[fl.below((uint32_t)bytes.size())] ^= (uint8_t)(1u << fl.below(8)); md += sfmt("%d bit flips; ", nb); } break;
      case 6: { Bulk rb(t.raw() | 1); size_t at = pg.empty() ? 0 : pg[t.spread((uint32_t)pg.size())].off; size_t n = 1 + rb.below(t.chance(1, 4) ? 70000 : 600); std::vector<uint8_t> junk(n); for (auto &x : junk) x = (uint8_t)rb.below(256); if (t.chance(1, 3)) memcpy(junk.data(), "OggS", std::min<size_t>(4, n)); bytes.insert(bytes.begin() + at, junk.begin(), junk.end()); md += sfmt("%zu bytes of garbage between pages; ", n); } break;
      case 7: { Span *p = pick(); if (p) { bytes[p->off + 5] &= (uint8_t)~4; md += "EOS flag removed; "; } } break;
      case 8: { if (!pg.empty() && c.links.size() > 1) { std::vector<uint8_t> cp(bytes.begin() + c.link_start[0], bytes.begin() + std::min<size_t>(bytes.size(), (size_t)c.link_end[0])); bytes.insert(bytes.end(), cp.begin(), cp.end()); md += "first link appended again (repeated serial number); "; } } break;
      // gen 4: page-free runs longer than the 64 kB chunks the seek bisection and the backward page search step by (zeros, noise, or noise
      // sprinkled with capture patterns), inserted at a page boundary or written over a stretch of the stream
      case 10: { Bulk rb(t.raw() | 1); size_t at = pg.empty() ? 0 : pg[t.spread((uint32_t)pg.size())].off; size_t n = 66000 + rb.below(t.chance(1, 3) ? 200000 : 6000); int fillk = (int)t.below(3); std::vector<uint8_t> junk(n, 0);
        if (fillk) for (auto &x : junk) x = (uint8_t)rb.below(256); if (fillk == 2) for (size_t q = 0; q + 4 < n; q += 1 + rb.below(30000)) memcpy(&junk[q], "OggS", 4);
        bytes.insert(bytes.begin() + at, junk.begin(), junk.end()); md += sfmt("%zu page-free bytes (fill %d) inserted at %zu; ", n, fillk, at); r.label("page-free run longer than 64 kB"); } break;
      case 11: { if (bytes.size() > 100) { size_t a = t.spread((uint32_t)bytes.size()), b = t.spread((uint32_t)bytes.size()); if (a > b) std::swap(a, b); for (size_t q = a; q < b; q++) bytes[q] = 0; md += sfmt("bytes %zu..%zu zeroed; ", a, b); } } break;
      case 9: { Span *p = pick(); if (p && p->len > 28) { size_t o2 = p->off + 27 + t.below(bytes[p->off + 26] ? bytes[p->off + 26] : 1u); bytes[o2] = (uint8_t)t.below(256); md += "lacing value edited; "; } } break;
    }
  }
  if (ndmg && refix) { fix_crcs(bytes); md += "[checksums repaired]"; }
  std::string cd = desc + "| " + (md.empty() ? "intact" : md) + sfmt(" bytes=%zu", bytes.size());
  // ---- open
  int openkind = t.weighted({5, 2, 1, 2, 1});   // seekable, NULL seek/tell, seek that always fails, ov_test + ov_test_open, ov_test only
  long ib = t.chance(1, 5) && openkind != 0 ? (long)t.below((uint32_t)std::min<size_t>(bytes.size(), 6000) + 1) : 0;
  MemSrc ms; ms.data = &bytes; ms.read_mode = t.weighted({4, 1, 2}); ms.sched = Bulk(t.raw() | 1); ms.budget = std::max<long>(100000, (ms.read_mode ? 60 * (long)bytes.size() : 200 * (long)(bytes.size() / 2048 + 1)) * 18);   // short-read schedules cost one callback per byte or so ms.pos = ib; ms.mark();
  ov_callbacks cb = ms_callbacks(openkind == 0 || openkind >= 3); if (openkind == 2) { cb.seek_func = ms_seek_fail; cb.tell_func = ms_tell; }
  OggVorbis_File vf; memset(&vf, 0x5b, sizeof vf); int orr; const char *ibuf = ib ? (const char *)bytes.data() : nullptr;
  if (openkind >= 3) { orr = ov_test_callbacks(&ms, &vf, ibuf, ib, cb); if (orr == 0 && openkind == 3) { ms.mark(); orr = ov_test_open(&vf); } }
  else orr = ov_open_callbacks(&ms, &vf, ibuf, ib, cb);
  if (orr != 0 && !ov_code(orr)) return r.fail("open returned the undocumented code %d [%s]", orr, cd.c_str());
  if (orr != 0) {
    if (!is_zero(vf)) return r.fail("a failed open (%d) leaves the handle not cleared [%s]", orr, cd.c_str());
    if (ms.closes) return r.fail("a failed open (%d) closed the data source [%s]", orr, cd.c_str());
    // calls on a handle whose open failed must answer with an error, not crash
    float **pcm; int bs; char buf[64];
    if (ov_read_float(&vf, &pcm, 100, &bs) >= 0 || ov_read(&vf, buf, 64, 0, 2, 1, &bs) >= 0 || ov_pcm_seek(&vf, 0) == 0 || ov_raw_seek(&vf, 0) == 0 || ov_time_seek(&vf, 0) == 0) return r.fail("a call on a handle whose open failed did not report an error [%s]", cd.c_str());
    if (ov_info(&vf, -1) || ov_comment(&vf, -1)) return r.fail("ov_info / ov_comment on a handle whose open failed return a pointer [%s]", cd.c_str());
    ov_clear(&vf); ov_clear(&vf); if (ms.closes) return r.fail("ov_clear on a failed handle closed the data source [%s]", cd.c_str());
    r.label("open failed"); r.label(sfmt("open failed with %d", orr)); if (r.want_sample()) r.sample(cd + sfmt(" open=%d", orr)); return true;
  }
  // ---- call script on the open handle
  OggVorbis_File vf2; bool have2 = false; MemSrc ms2;
  std::string hist; int nops = 2 + (int)t.below(40); long data_reads = 0, seeks_done = 0; bool partopen = openkind == 4;
  static const double weird[] = {NAN, INFINITY, -INFINITY, -1.0, 1e18, 0.0, -0.0, 1e-9};
  auto bad = [&](const char *what, long v) { std::string m = sfmt("%s returned the undocumented value %ld [hist %s] [%s]", what, v, hist.c_str(), cd.c_str()); if (have2) ov_clear(&vf2); ov_clear(&vf); return r.fail("%s", m.c_str()); };
  for (int i = 0; i < nops; i++) {
    ms.mark(); long links = ov_streams(&vf); ogg_int64_t tot = ov_pcm_total(&vf, -1); double dur = ov_time_total(&vf, -1); ogg_int64_t rawtot = ov_raw_total(&vf, -1);
    auto pcm_arg = [&]() -> ogg_int64_t { int k = t.weighted({6, 1, 1, 1, 1}); return k == 0 ? (ogg_int64_t)t.spread((uint32_t)std::min<ogg_int64_t>(std::max<ogg_int64_t>(tot, 0) + 1, 0x7fffffff)) : k == 1 ? -1 - (ogg_int64_t)t.below(1000) : k == 2 ? std::max<ogg_int64_t>(tot, 0) + 1 + t.below(1000) : k == 3 ? (ogg_int64_t)0x7fffffffffffffffLL : std::max<ogg_int64_t>(tot, 0); };
    auto time_arg = [&]() -> double { int k = t.weighted({6, 2}); return k == 0 ? (dur > 0 ? dur * t.below(1001) / 1000.0 : 0.0) : weird[t.below(8)]; };
    auto raw_arg = [&]() -> ogg_int64_t { int k = t.weighted({6, 1, 1, 1}); return k == 0 ? (ogg_int64_t)t.spread((uint32_t)bytes.size() + 1) : k == 1 ? -1 - (ogg_int64_t)t.below(100) : k == 2 ? (ogg_int64_t)bytes.size() + 1 + t.below(100000) : (ogg_int64_t)0x7fffffffffffffffLL; };
    int op = t.weighted({8, 4, 3, 2, 2, 2, 2, 2, 2, 2, 3, 2, 1, 1, 1, 1});
    switch (op) {
      case 0: { float **pcm = nullptr; int bs = -7; int req = (int)t.below(t.chance(1, 6) ? 3 : 8193); long n = ov_read_float(&vf, &pcm, req, &bs); hist += sfmt("rf(%d)=%ld ", req, n);
        if (n > req && req > 0) return bad("ov_read_float (more than requested)", n); if (n < 0 && !ov_code(n)) return bad("ov_read_float", n);
        if (n > 0) { data_reads++; vorbis_info *vi = ov_info(&vf, -1); if (!vi || !vi->codec_setup) return bad("ov_info(-1) unusable right after data was returned", 0); if (ov_seekable(&vf) && (bs < 0 || bs >= links)) return bad("*bitstream out of range", bs); double acc = 0; for (int q = 0; q < vi->channels; q++) for (long k = 0; k < n; k++) acc += pcm[q][k]; (void)acc; } } break;
      case 1: { int word = t.chance(1, 8) ? (int)t.below(5) - 1 : 1 + (int)t.below(2); int len = (int)t.below(t.chance(1, 4) ? 40 : 9000); std::vector<char> buf((size_t)len + 16, 0x6c); int bs = -7; long n = ov_read(&vf, buf.data(), len, (int)t.below(2), word, (int)t.below(2), &bs); hist += sfmt("ri(%d,w%d)=%ld ", len, word, n);
        if (n > len) return bad("ov_read (more than the buffer)", n); if (n < 0 && !ov_code(n)) return bad("ov_read", n);
        for (size_t k = (size_t)std::max<long>(n, 0); k < buf.size(); k++) if (word >= 1 && word <= 2 && buf[k] != 0x6c) return bad("ov_read wrote beyond the bytes it reported", (long)k); if (n > 0) data_reads++; } break;
      case 2: { ogg_int64_t p = pcm_arg(); long rr = t.chance(1, 3) ? ov_pcm_seek_page(&vf, p) : ov_pcm_seek(&vf, p); hist += sfmt("pcm_seek(%lld)=%ld ", (long long)p, rr); if (rr != 0 && !ov_code(rr)) return bad("ov_pcm_seek", rr); if (rr == 0) seeks_done++; } break;
      case 3: { double s2 = time_arg(); long rr = t.chance(1, 3) ? ov_time_seek_page(&vf, s2) : ov_time_seek(&vf, s2); hist += sfmt("time_seek(%g)=%ld ", s2, rr); if (rr != 0 && !ov_code(rr)) return bad("ov_time_seek", rr); if (rr == 0) seeks_done++; } break;
      case 4: { ogg_int64_t b = raw_arg(); long rr = ov_raw_seek(&vf, b); hist += sfmt("raw_seek(%lld)=%ld ", (long long)b, rr); if (rr != 0 && !ov_code(rr)) return bad("ov_raw_seek", rr); if (rr == 0) seeks_done++; } break;
      case 5: { int which = t.below(5); long rr; if (which == 0) rr = ov_pcm_seek_lap(&vf, pcm_arg()); else if (which == 1) rr = ov_pcm_seek_page_lap(&vf, pcm_arg()); else if (which == 2) rr = ov_time_seek_lap(&vf, time_arg()); else if (which == 3) rr = ov_time_seek_page_lap(&vf, time_arg()); else rr = ov_raw_seek_lap(&vf, raw_arg()); hist += sfmt("lap%d=%ld ", which, rr); if (rr != 0 && !ov_code(rr)) return bad("lapped seek", rr); } break;
      case 6: { ogg_int64_t a = ov_pcm_tell(&vf), b = ov_raw_tell(&vf); double c2 = ov_time_tell(&vf); hist += sfmt("tell=%lld/%lld ", (long long)a, (long long)b); (void)c2; if (partopen && (a != OV_EINVAL || b != OV_EINVAL)) return bad("tell on a partially open handle", (long)a); } break;
      case 7: { int li = (int)t.below((uint32_t)std::max<long>(links, 0) + 4) - 2; ogg_int64_t a = ov_pcm_total(&vf, li), b = ov_raw_total(&vf, li); double c2 = ov_time_total(&vf, li); long d2 = ov_bitrate(&vf, li), e2 = ov_serialnumber(&vf, li); (void)b; (void)c2; (void)d2; (void)e2;
        if (ov_seekable(&vf) && !partopen && li >= links && a != OV_EINVAL) return bad("ov_pcm_total for a link index beyond the last", (long)a); } break;
      case 8: { int li = (int)t.below((uint32_t)std::max<long>(links, 0) + 4) - 2; vorbis_info *vi = ov_info(&vf, li); vorbis_comment *vcm = ov_comment(&vf, li); if (ov_seekable(&vf) && li >= links && (vi || vcm)) return bad("ov_info/ov_comment for a link index beyond the last returned a pointer", li);
        if (vi && vi->codec_setup && (vi->channels < 1 || vi->channels > 255 || vi->rate < 1)) return bad("ov_info reports an impossible stream", vi->channels); if (vcm) { long tot2 = 0; for (int q = 0; q < vcm->comments; q++) tot2 += vcm->user_comments[q] ? vcm->user_comments[q][vcm->comment_lengths[q]] : 0; (void)tot2; } } break;
      case 9: { long a = ov_bitrate_instant(&vf); (void)a; long s2 = ov_streams(&vf), k2 = ov_seekable(&vf); if (s2 < 1 || (k2 != 0 && k2 != 1)) return bad("ov_streams/ov_seekable", s2); } break;
      case 10: { int f = (int)t.below(2); long rr = ov_halfrate(&vf, f); hist += sfmt("halfrate(%d)=%ld ", f, rr); if (!in_set(rr, {0, OV_EINVAL})) return bad("ov_halfrate", rr); long hp = ov_halfrate_p(&vf); if (!in_set(hp, {0, 1, OV_EINVAL})) return bad("ov_halfrate_p", hp); } break;
      case 11: { // cross-lap with a second handle on the same or the intact stream
        if (!have2) { ms2 = MemSrc(); ms2.data = t.chance(1, 2) ? &bytes : &c.bytes; ms2.budget = ms.budget; ms2.mark(); if (ov_open_callbacks(&ms2, &vf2, NULL, 0, ms_callbacks(true)) == 0) have2 = true; }
        if (have2) { if (t.chance(1, 2)) { ms2.mark(); ov_pcm_seek(&vf2, pcm_arg()); } ms2.mark(); long rr = t.chance(1, 2) ? ov_crosslap(&vf, &vf2) : ov_crosslap(&vf2, &vf); hist += sfmt("crosslap=%ld ", rr); if (rr != 0 && !ov_code(rr)) return bad("ov_crosslap", rr); } } break;
      case 12: { if (openkind == 4 && partopen && t.chance(1, 2)) { ms.mark(); long rr = ov_test_open(&vf); hist += sfmt("test_open=%ld ", rr); if (rr == 0) partopen = false; else { if (!is_zero(vf) || ms.closes) return bad("failed ov_test_open does not leave a cleared, unclosed handle", rr); if (have2) ov_clear(&vf2); r.label("ov_test_open failed"); return true; } } } break;
      case 13: { long rr = ov_read_filter(&vf, nullptr, 0, 0, 2, 1, nullptr, nullptr, nullptr); if (rr > 0) return bad("ov_read_filter with a zero-length buffer", rr); } break;
      case 14: { ov_raw_seek(&vf, 0); hist += "rewind "; } break;
      case 15: { ogg_int64_t p = std::max<ogg_int64_t>(tot, 0); ov_pcm_seek(&vf, p); float **pcm; int bs; long n = ov_read_float(&vf, &pcm, 4096, &bs); hist += sfmt("seek(end)+rf=%ld ", n); (void)rawtot; } break;
    }
    if (ms.closes) return bad("the data source was closed before ov_clear", ms.closes);
  }
  if (have2) { ov_clear(&vf2); if (ms2.closes != 1) return r.fail("second handle: close callback ran %ld times [%s]", ms2.closes, cd.c_str()); }
  if (ov_clear(&vf) != 0 || !is_zero(vf)) return r.fail("ov_clear failed or left a non-zero handle [%s]", cd.c_str());
  if (ms.closes != 1) return r.fail("the close callback ran %ld times for a successfully opened handle [%s]", ms.closes, cd.c_str());
  ov_clear(&vf);
  r.label(ndmg ? "damaged stream" : "intact stream"); r.label(openkind == 0 ? "seekable" : openkind < 3 ? "streaming" : "ov_test"); if (ib) r.label("initial buffer"); if (c.links.size() > 4) r.label("more than 4 links");
  if (data_reads && ndmg) r.label("damaged stream delivered data");
  if (seeks_done || data_reads) r.nontriv(fnv1a(hist.data(), hist.size()) ^ fnv1a(cd.data(), cd.size()));
  if (r.want_sample()) r.sample(cd + " ops: " + hist);
  return true;
}
