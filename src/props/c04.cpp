// C04: encode then decode preserves the exact sample count and starts at zero.
#include "../common.h"
const char *prop_id() { return "C04"; }

static int64_t gen_N(Tape &t, int bs0, int bs1) {
  int cls = t.weighted({3, 2, 6, 3, 2});
  switch (cls) {
    case 0: return (int64_t)t.below(4);                                   // 0..3
    case 1: return (int64_t)t.below((uint32_t)bs1 + 2);                   // below one long block
    case 2: {                                                             // around multiples of bs0/2, bs1/2, bs1, 3*bs1
      static const int num[] = {1, 1, 2, 6, 3, 4}; int u = t.below(6);
      int64_t unit = (u == 0 ? bs0 / 2 : u == 1 ? bs1 / 2 : bs1 / 2 * num[u]);
      int64_t k = 1 + t.below(6); int64_t d = (int64_t)t.below(5) - 2;
      int64_t n = unit * k + d; return n < 0 ? 0 : n; }
    case 3: return (int64_t)t.below(20000);
    default: { int e = 10 + t.below(8); return (int64_t)((1u << e) + t.below(1u << e)); }   // log-uniform up to ~260k
  }
}

// Exhaustive arm (tape generation 4): every N of one window of 128 consecutive lengths inside [0, 3*bs1+2+127] for one of the block-size
// families, fed in one call (or, in the same case, in two pieces cut at a tape-chosen point): packet stream shape, exact count at packet
// level and through vorbisfile.  The window index is drawn from the tape, so a thorough run covers every window of every family many
// times over; which windows were covered is in the labels.
static bool sweep_N(Tape &t, Report &r) {
  static const long fam_rate[] = {44100, 8000, 11025, 16000, 22050, 32000, 96000, 4000};
  int f = t.below(8); EncCfg cfg; cfg.rate = fam_rate[f]; cfg.channels = 1 + (int)t.below(2); cfg.quality = (float)(t.range(-1, 10) / 10.0);
  if (t.chance(1, 4)) { cfg.mode = 1; cfg.br_nom = (long)(48000.0 * std::max(0.2, cfg.rate / 44100.0)) * cfg.channels; }
  Signal sig = Signal::gen(t);
  int bs1 = 0; { Encoder e; if (e.setup(cfg) != 0) { r.label("sweep: setup refused"); return true; } bs1 = (int)vorbis_info_blocksize(&e.vi, 1); }
  int nwin = (3 * bs1 + 2) / 128 + 1; int w = (int)t.below((uint32_t)nwin); int cutsel = (int)t.below(4);
  r.label("exhaustive N window"); r.label(sfmt("sweep rate=%ld bs1=%d window %d/%d", cfg.rate, bs1, w, nwin));
  for (int64_t N = (int64_t)w * 128; N < (int64_t)(w + 1) * 128; N++) {
    std::vector<int> pieces; std::vector<char> da;
    if (N > 0) { if (cutsel == 0 || N < 2) pieces.push_back((int)N); else { int c = cutsel == 1 ? 1 : cutsel == 2 ? (int)(N / 2) : (int)(N - 1); pieces.push_back(c); pieces.push_back((int)(N - c)); } }
    da.assign(pieces.size(), (char)(cutsel & 1));
    LStream s; s.serial = 77; std::string err;
    if (encode_stream(cfg, sig, N, pieces, da, s, err) != 0) return r.fail("sweep: encode failed: %s (%s N=%lld)", err.c_str(), cfg.desc().c_str(), (long long)N);
    std::string cd = cfg.desc() + " " + sig.desc() + sfmt(" sweep N=%lld cut=%d bs=%d/%d packets=%zu", (long long)N, cutsel, s.bs0, s.bs1, s.audio.size());
    int eos = 0; int64_t last = -1;
    for (size_t i = 0; i < s.audio.size(); i++) { const Pkt &p = s.audio[i]; if (p.granulepos < last) return r.fail("granulepos decreases at packet %zu [%s]", i, cd.c_str()); last = p.granulepos; if (p.eos) { eos++; if (i + 1 != s.audio.size()) return r.fail("e_o_s on packet %zu of %zu [%s]", i, s.audio.size(), cd.c_str()); } }
    if (s.audio.empty() || eos != 1) return r.fail("%d packets carry e_o_s (%zu packets) [%s]", eos, s.audio.size(), cd.c_str());
    if (last != N) return r.fail("last packet granulepos %lld != N=%lld [%s]", (long long)last, (long long)N, cd.c_str());
    DecodeResult d; if (!decode_packets(s, d)) return r.fail("decoder refuses encoder headers [%s]", cd.c_str());
    for (size_t i = 0; i < d.synth_ret.size(); i++) if (d.synth_ret[i] || d.blockin_ret[i]) return r.fail("packet %zu rejected synth=%d blockin=%d [%s]", i, d.synth_ret[i], d.blockin_ret[i], cd.c_str());
    if (d.total() != N) return r.fail("packet-level decode returns %lld samples, N=%lld [%s]", (long long)d.total(), (long long)N, cd.c_str());
    Chain ch; ch.links.push_back(s); Layout lay; lay.style = (int)(N % 3 == 0 ? 5 : N % 3 == 1 ? 0 : 1); lay.seed = (uint32_t)N; build_chain(ch, {lay});
    for (int mode = 0; mode < 2; mode++) {
      MemSrc ms; ms.data = &ch.bytes; ms.read_mode = 0; ms.sched = Bulk(1); ms.budget = -1; OggVorbis_File vf; ms.mark();
      int orr = ov_open_callbacks(&ms, &vf, NULL, 0, ms_callbacks(mode == 0));
      if (orr != 0) return r.fail("ov_open_callbacks(%s)=%d on encoder output [%s]", mode ? "streaming" : "seekable", orr, cd.c_str());
      int64_t tot = mode == 0 ? ov_pcm_total(&vf, -1) : N, tell0 = ov_pcm_tell(&vf);
      std::vector<PCM> pl; std::vector<long> neg; vf_read_all(&vf, pl, neg); int64_t tellend = ov_pcm_tell(&vf); ov_clear(&vf);
      int64_t got = pl.empty() || pl[0].empty() ? 0 : (int64_t)pl[0][0].size();
      if (tot != N || tell0 != 0 || !neg.empty() || got != N || tellend != N)
        return r.fail("vorbisfile (%s): total=%lld tell0=%lld delivered=%lld tell at end=%lld negatives=%zu, N=%lld [%s]", mode ? "streaming" : "seekable", (long long)tot, (long long)tell0, (long long)got, (long long)tellend, neg.size(), (long long)N, cd.c_str());
      if (N > 0 && !pcm_equal(pl[0], d.pcm)) return r.fail("vorbisfile audio differs from packet-level decode (%s) [%s]", mode ? "streaming" : "seekable", cd.c_str());
    }
    uint64_t h = fnv1a(cd.data(), cd.size()); r.nontriv(h);
  }
  return true;
}

bool prop_run(Tape &t, Report &r) {
  if (g_tape_gen >= 4) { const char *tier = getenv("VERIF_TIER_RUN"); int den = tier && !strcmp(tier, "thorough") ? 12 : 120; if (t.chance(1, (uint32_t)den)) return sweep_N(t, r); }
  EncCfg cfg = gen_enccfg(t, true, 8);
  if (t.chance(1, 40)) cfg.channels = t.chance(1, 2) ? 255 : 16 + t.below(100);
  Signal sig = Signal::gen(t);
  Encoder e; int sr = e.setup(cfg);
  if (sr != 0) { r.label("setup_refused"); return true; }   // property quantifies over configurations that set up
  LStream s; s.serial = (int32_t)t.raw();
  if (e.start(s) != 0) return r.fail("encoder start failed after successful setup: %s (%s)", e.err.c_str(), cfg.desc().c_str());
  int64_t N = gen_N(t, s.bs0, s.bs1);
  if (cfg.channels > 16 && N > 6000) N = N % 6000;
  std::vector<char> da; std::vector<int> pieces = gen_pieces(t, N, da);
  std::string err;
  if (enc_feed(e, cfg.channels, sig, N, pieces, da, s, err) != 0) return r.fail("encode failed: %s (%s)", err.c_str(), cfg.desc().c_str());
  Layout lay = Layout::gen(t);
  std::string cd = cfg.desc() + " " + sig.desc() + sfmt(" N=%lld pieces=%zu bs=%d/%d packets=%zu ", (long long)N, pieces.size(), s.bs0, s.bs1, s.audio.size()) + lay.desc();
  r.label(cfg.mode == 0 ? "vbr" : "managed");
  r.label(sfmt("bs%d/%d", s.bs0, s.bs1));
  if (N == 0) r.label("N=0"); else if (N < s.bs1) r.label("N<bs1"); else if (N % (s.bs1 / 2) == 0) r.label("N multiple of bs1/2");
  if (pieces.size() >= 3) r.label("pieces>=3");
  if (lay.style == 5) r.label("paged by libogg");

  // (a) packet stream shape
  int64_t last = -1; int eos_count = 0;
  for (size_t i = 0; i < s.audio.size(); i++) {
    const Pkt &p = s.audio[i];
    if (p.granulepos < last) return r.fail("granulepos decreases at packet %zu: %lld after %lld [%s]", i, (long long)p.granulepos, (long long)last, cd.c_str());
    if (p.granulepos < 0) return r.fail("negative granulepos %lld at packet %zu [%s]", (long long)p.granulepos, i, cd.c_str());
    last = p.granulepos; if (p.eos) { eos_count++; if (i + 1 != s.audio.size()) return r.fail("e_o_s on packet %zu of %zu [%s]", i, s.audio.size(), cd.c_str()); }
  }
  if (s.audio.empty()) return r.fail("encoder produced no audio packet at end of input [%s]", cd.c_str());
  if (eos_count != 1) return r.fail("%d packets carry e_o_s [%s]", eos_count, cd.c_str());
  if (s.audio.back().granulepos != N) return r.fail("last packet granulepos %lld != N=%lld [%s]", (long long)s.audio.back().granulepos, (long long)N, cd.c_str());

  // (a') the other documented way of getting packets out of an unmanaged encoder, vorbis_analysis(&vb,&op), must produce the same stream;
  //      a bitrate-managed encoder must refuse it with OV_EINVAL and carry on through the bitrate API unharmed
  if (g_tape_gen >= 4 && N <= 40000 && t.chance(1, 4)) {
    Encoder e2; e2.direct = true; if (e2.setup(cfg) != 0) return r.fail("second set-up with the same arguments refused [%s]", cd.c_str());
    LStream s2; s2.serial = s.serial; std::string err2;
    if (e2.start(s2) != 0 || enc_feed(e2, cfg.channels, sig, N, pieces, da, s2, err2) != 0) return r.fail("direct packet output: %s %s [%s]", e2.err.c_str(), err2.c_str(), cd.c_str());
    r.label(e2.direct_refused ? "direct packet output refused (managed), bitrate API continues" : "direct packet output compared");
    if (s2.audio.size() != s.audio.size()) return r.fail("direct packet output gives %zu packets, the bitrate API %zu [%s]", s2.audio.size(), s.audio.size(), cd.c_str());
    for (size_t i = 0; i < s.audio.size(); i++) { const Pkt &a = s.audio[i], &b = s2.audio[i];
      if (a.data != b.data || a.granulepos != b.granulepos || a.eos != b.eos || a.packetno != b.packetno)
        return r.fail("packet %zu differs between vorbis_analysis(&vb,&op) and the bitrate API: %zu/%zu bytes, granulepos %lld/%lld, e_o_s %d/%d, packetno %lld/%lld [%s]", i, b.data.size(), a.data.size(), (long long)b.granulepos, (long long)a.granulepos, (int)b.eos, (int)a.eos, (long long)b.packetno, (long long)a.packetno, cd.c_str()); }
  }
  // (b) packet-level decode
  DecodeResult d;
  if (!decode_packets(s, d)) return r.fail("decoder refuses encoder headers: %d %d %d init=%d [%s]", d.hdr_ret[0], d.hdr_ret[1], d.hdr_ret[2], d.init_ret, cd.c_str());
  for (size_t i = 0; i < d.synth_ret.size(); i++) if (d.synth_ret[i] || d.blockin_ret[i]) return r.fail("packet %zu rejected synth=%d blockin=%d [%s]", i, d.synth_ret[i], d.blockin_ret[i], cd.c_str());
  if (d.total() != N) return r.fail("packet-level decode returns %lld samples, N=%lld [%s]", (long long)d.total(), (long long)N, cd.c_str());
  for (auto &c : d.pcm) if ((int64_t)c.size() != N) return r.fail("channel length differs [%s]", cd.c_str());

  // (c) through vorbisfile, seekable and streaming
  Chain ch; ch.links.push_back(s); build_chain(ch, {lay});
  // first audio page: granulepos equals the samples its packets complete (no initial offset)
  {
    int64_t acc = 0; int prev_bs = 0; const PageInfo *fp = nullptr;
    for (auto &pg : ch.pages) if (pg.last_completed_pkt >= 3) { fp = &pg; break; }
    if (fp) {
      vorbis_info vi; vorbis_comment vc; vorbis_info_init(&vi); vorbis_comment_init(&vc);
      for (int i = 0; i < 3; i++) { ogg_packet op; s.hdr[i].to_ogg(op); vorbis_synthesis_headerin(&vi, &vc, &op); }
      for (int k = 3; k <= fp->last_completed_pkt; k++) { ogg_packet op; s.audio[k - 3].to_ogg(op); int b = (int)vorbis_packet_blocksize(&vi, &op); if (prev_bs) acc += (prev_bs + b) / 4; prev_bs = b; }
      vorbis_comment_clear(&vc); vorbis_info_clear(&vi);
      bool is_last = fp->last_completed_pkt == (int)s.audio.size() + 2;
      if (!is_last && fp->granulepos != acc) return r.fail("first audio page granulepos %lld but its packets complete %lld samples (initial offset) [%s]", (long long)fp->granulepos, (long long)acc, cd.c_str());
      if (is_last && fp->granulepos > acc) return r.fail("single audio page granulepos %lld exceeds completed samples %lld [%s]", (long long)fp->granulepos, (long long)acc, cd.c_str());
    }
  }
  for (int mode = 0; mode < 2; mode++) {
    MemSrc ms; ms.data = &ch.bytes; ms.read_mode = t.below(3) == 2 ? 2 : 0; ms.sched = Bulk(t.raw() | 1);
    ms.budget = 4096 + 64 * (long)(ch.bytes.size() / 2048 + 1) * 2;
    OggVorbis_File vf; ms.mark();
    int orr = ov_open_callbacks(&ms, &vf, NULL, 0, ms_callbacks(mode == 0));
    if (orr != 0) return r.fail("ov_open_callbacks(%s)=%d on encoder output [%s]", mode ? "streaming" : "seekable", orr, cd.c_str());
    if (mode == 0) {
      int64_t tot = ov_pcm_total(&vf, -1);
      if (tot != N) { ov_clear(&vf); return r.fail("ov_pcm_total=%lld, N=%lld [%s]", (long long)tot, (long long)N, cd.c_str()); }
      if (ov_pcm_total(&vf, 0) != N) { ov_clear(&vf); return r.fail("ov_pcm_total(0)!=N [%s]", cd.c_str()); }
    }
    int64_t tell0 = ov_pcm_tell(&vf);
    if (tell0 != 0) { ov_clear(&vf); return r.fail("ov_pcm_tell after open = %lld (%s) [%s]", (long long)tell0, mode ? "streaming" : "seekable", cd.c_str()); }
    std::vector<PCM> pl; std::vector<long> neg; ms.budget = -1;
    vf_read_all(&vf, pl, neg);
    int64_t tellend = ov_pcm_tell(&vf);
    ov_clear(&vf);
    if (!neg.empty()) return r.fail("ov_read_float returned %ld on intact encoder output (%s) [%s]", neg[0], mode ? "streaming" : "seekable", cd.c_str());
    int64_t got = pl.empty() || pl[0].empty() ? 0 : (int64_t)pl[0][0].size();
    if (pl.size() > 1) return r.fail("more than one link reported [%s]", cd.c_str());
    if (got != N) return r.fail("vorbisfile (%s) delivered %lld samples, N=%lld [%s]", mode ? "streaming" : "seekable", (long long)got, (long long)N, cd.c_str());
    if (tellend != N) return r.fail("ov_pcm_tell at end = %lld, N=%lld (%s) [%s]", (long long)tellend, (long long)N, mode ? "streaming" : "seekable", cd.c_str());
    if (N > 0 && !pcm_equal(pl[0], d.pcm)) return r.fail("vorbisfile audio differs from packet-level decode (%s) [%s]", mode ? "streaming" : "seekable", cd.c_str());
  }
  bool nontrivial = (N % (s.bs1 / 2) != 0) || N < s.bs1 || pieces.size() >= 3;
  if (nontrivial) {
    uint64_t h = fnv1a(cd.data(), cd.size()); for (int x : pieces) h = fnv1a(&x, sizeof x, h);
    r.nontriv(h);
  }
  if (r.want_sample()) r.sample(cd);
  return true;
}
