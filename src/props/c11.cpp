// C11: a damaged or skipped packet disturbs only its own neighbourhood.
#include "../vfmodel.h"
#include <map>
const char *prop_id() { return "C11"; }

struct Item { Pkt p; int idx; bool restart_before = false; int W = -1; bool accepted = false; };   // W/accepted are filled in by decode_items   // idx = index of the packet in the clean stream
typedef std::map<int, PCM> Segs;                                 // samples returned after the blockin of packet idx

// decode a packet sequence with the decoder_example.c call pattern; output recorded per blockin, tagged with the packet index
static bool decode_items(const LStream &s, std::vector<Item> &items, Segs &segs, std::vector<int> &rejected, std::string &err) {
  vorbis_info vi; vorbis_comment vc; vorbis_info_init(&vi); vorbis_comment_init(&vc); bool ok = true;
  for (auto &it : items) { it.accepted = false; it.W = -1; }
  for (int i = 0; i < 3 && ok; i++) { ogg_packet op; s.hdr[i].to_ogg(op); if (vorbis_synthesis_headerin(&vi, &vc, &op)) { err = "headers refused"; ok = false; } }
  if (ok) {
    vorbis_dsp_state vd; vorbis_block vb;
    if (vorbis_synthesis_init(&vd, &vi)) { err = "synthesis_init failed"; ok = false; }
    else {
      vorbis_block_init(&vd, &vb);
      for (auto &it : items) {
        if (it.restart_before) vorbis_synthesis_restart(&vd);
        ogg_packet op; it.p.to_ogg(op);
        int sr = vorbis_synthesis(&vb, &op);
        if (sr != 0) { if (getenv("VERIF_VERBOSE")) fprintf(stderr, "  pkt %d rejected %d\n", it.idx, sr); rejected.push_back(it.idx); continue; }     // a rejected packet is skipped, as the examples do
        int br = vorbis_synthesis_blockin(&vd, &vb); if (br != 0) { err = sfmt("blockin=%d after an accepted packet", br); ok = false; break; }
        it.accepted = true; it.W = (int)vd.W;
        PCM out(vi.channels); float **pcm; int m;
        while ((m = vorbis_synthesis_pcmout(&vd, &pcm)) > 0) { for (int c = 0; c < vi.channels; c++) out[c].insert(out[c].end(), pcm[c], pcm[c] + m); vorbis_synthesis_read(&vd, m); }
        if (getenv("VERIF_VERBOSE")) fprintf(stderr, "  pkt %d gp=%lld W=%ld lW=%ld out=%zu vdgp=%lld\n", it.idx, (long long)it.p.granulepos, vd.W, vd.lW, out.empty() ? 0 : out[0].size(), (long long)vd.granulepos);
        segs[it.idx] = out;
      }
      vorbis_block_clear(&vb); vorbis_dsp_clear(&vd);
    }
  }
  vorbis_comment_clear(&vc); vorbis_info_clear(&vi); return ok;
}

// The decoder's position bookkeeping (Vorbis I spec A.2, lib/block.c): how many samples are cut from the beginning / end of each
// segment because of granule positions, given the block sizes of the packets that were accepted, in the order they were decoded.
struct Trim { int begin = 0, end = 0; };
static std::map<int, Trim> model_trims(const std::vector<Item> &items, int bs0, int bs1) {
  std::map<int, Trim> out; int64_t seq = -1, vgp = -1, count = -1; int lW = 0, W = 0; bool first = true;
  for (auto &it : items) {
    if (it.restart_before) { seq = -1; vgp = -1; count = -1; first = true; }
    if (!it.accepted) continue;
    lW = W; W = it.W; int adv = (lW ? bs1 : bs0) / 4 + (W ? bs1 : bs0) / 4; int avail = first ? 0 : adv; first = false;
    if (seq == -1 || seq + 1 != it.p.packetno) { vgp = -1; count = -1; }
    seq = it.p.packetno;
    if (count == -1) count = 0; else count += adv;
    Trim tr; int64_t gp = it.p.granulepos;
    if (vgp == -1) { if (gp != -1) { vgp = gp; if (count > vgp) { int64_t extra = count - gp; if (extra < 0) extra = 0; if (extra > avail) extra = avail; if (it.p.eos) tr.end = (int)extra; else tr.begin = (int)extra; } } }
    else { vgp += adv; if (gp != -1 && vgp != gp) { if (vgp > gp && it.p.eos) { int64_t extra = vgp - gp; if (extra > avail) extra = avail; if (extra < 0) extra = 0; tr.end = (int)extra; } vgp = gp; } }
    out[it.idx] = tr;
  }
  return out;
}

static bool make_stream(Tape &t, Report &r, LStream &s, std::string &desc) {
  if (t.chance(1, 3)) {
    vg::GenOpts go; go.simple = true; go.maxch = 4; go.max_bslog = 10; int npk = 8 + (int)t.below(40); vg::GenStream gs; vg::gen_stream(t, go, npk, gs, 5);
    if (!gs.ok) return r.harness("vgen: %s", gs.err.c_str());
    s = gs.ls; desc = s.desc; r.label("synthetic (vgen) stream"); return true;
  }
  EncCfg cfg = gen_link_cfg(t, 4); Signal sig = Signal::gen(t);
  if (t.chance(1, 2)) { sig.kind = 5; sig.period = 300 + t.below(4000); sig.amp = 0.9; }   // click trains: short/long block switching
  if (t.chance(1, 4)) sig.perchan = 1;
  Encoder e; if (e.setup(cfg)) { cfg = EncCfg(); cfg.channels = 2; e.clear(); if (e.setup(cfg)) return r.harness("encoder setup"); }
  s.serial = 9; if (e.start(s) != 0) return r.harness("encoder start: %s", e.err.c_str());
  int64_t N = s.bs1 * (2 + (int64_t)t.below(12)) + t.below(2000); std::vector<int> pieces{(int)N}; std::vector<char> da; std::string err;
  if (t.chance(1, 4)) {   // one channel silent for a while (unused floors next to used ones)
    r.label("channel with digital silence");
  }
  if (enc_feed(e, cfg.channels, sig, N, pieces, da, s, err)) return r.harness("encode: %s", err.c_str());
  desc = cfg.desc() + " " + sig.desc() + sfmt(" N=%lld pk=%zu bs=%d/%d", (long long)N, s.audio.size(), s.bs0, s.bs1);
  return true;
}

bool prop_run(Tape &t, Report &r) {
  LStream s; std::string desc; if (!make_stream(t, r, s, desc)) return false;
  int np = (int)s.audio.size(); if (np < 6) { r.label("stream too short"); return true; }
  // granule variant: all -1 with consecutive packet numbers (pure lapping), or realistic page-style positions
  bool pure = t.chance(1, 2);
  std::vector<Pkt> clean = s.audio;
  if (pure) { for (auto &p : clean) { p.granulepos = -1; p.eos = false; } r.label("granule positions all -1"); }
  else { Bulk pg(t.raw() | 1); for (int k = 0; k + 1 < np; k++) if (pg.below(4) != 0) clean[k].granulepos = -1; r.label("page-style granule positions"); }
  std::vector<Item> base; for (int k = 0; k < np; k++) base.push_back(Item{clean[k], k});
  Segs O; std::vector<int> rej0; std::string err;
  if (!decode_items(s, base, O, rej0, err)) return r.harness("clean decode failed: %s [%s]", err.c_str(), desc.c_str());
  if (!rej0.empty()) return r.harness("clean decode rejects packet %d [%s]", rej0[0], desc.c_str());
  // untrimmed segments (pure lapping: what each pair of neighbouring packets produces before any granule bookkeeping)
  Segs U; { std::vector<Item> ub = base; for (auto &it : ub) { it.p.granulepos = -1; it.p.eos = false; } std::vector<int> rj; if (!decode_items(s, ub, U, rj, err) || !rj.empty()) return r.harness("pure-lapping decode failed [%s]", desc.c_str()); }
  auto expect = [&](int k, const Trim &tr) { PCM e = U[k]; for (auto &chv : e) { size_t n = chv.size(); size_t lo = std::min<size_t>(tr.begin, n), hi = n - std::min<size_t>(tr.end, n - lo); chv = std::vector<float>(chv.begin() + lo, chv.begin() + hi); } return e; };
  { auto tm = model_trims(base, s.bs0, s.bs1); for (int k = 0; k < np; k++) if (!pcm_equal(O[k], expect(k, tm[k]))) return r.harness("trimming model disagrees with the clean decode at packet %d [%s]", k, desc.c_str()); }
  // ---- disturbances
  std::vector<Item> items = base; int D = -1; std::string what; int ndist = 1 + (t.chance(1, 4) ? (int)t.below(3) : 0); int first_d = -1;
  bool fresh_start = false; int fresh_at = 0;
  for (int q = 0; q < ndist; q++) {
    int d = 1 + (int)t.spread((uint32_t)np - 3); if (d > np - 3) d = np - 3; if (first_d < 0 || d < first_d) first_d = d;
    int kind = t.weighted({3, 2, 3, 4, 2, 2, 2, 2});
    // position of packet index d in the current item list (earlier disturbances may have removed or added entries)
    int at = -1; for (size_t i = 0; i < items.size(); i++) if (items[i].idx == d) { at = (int)i; }
    if (at < 0) continue;
    switch (kind) {
      case 0: items.erase(items.begin() + at); what += sfmt("drop(%d) ", d); D = std::max(D, d); break;
      case 1: items.insert(items.begin() + at, items[at]); what += sfmt("duplicate(%d) ", d); D = std::max(D, d); break;
      case 2: { size_t keep = t.below((uint32_t)items[at].p.data.size() + 1); items[at].p.data.resize(keep); what += sfmt("truncate(%d to %zu bytes) ", d, keep); D = std::max(D, d); } break;
      case 3: { int nb = 1 + (int)t.below(16); Bulk fl(t.raw() | 1); auto &dat = items[at].p.data; for (int b = 0; b < nb && !dat.empty(); b++) { size_t bit = fl.below((uint32_t)dat.size() * 8); dat[bit >> 3] ^= (uint8_t)(1u << (bit & 7)); } what += sfmt("flip(%d, %d bits) ", d, nb); D = std::max(D, d); } break;
      case 4: { Bulk rb(t.raw() | 1); auto &dat = items[at].p.data; size_t n = 1 + rb.below(400); dat.resize(n); for (auto &x : dat) x = (uint8_t)rb.below(256); dat[0] &= 0xfe; what += sfmt("random bytes(%d, %zu) ", d, n); D = std::max(D, d); } break;
      case 5: if (at + 1 < (int)items.size()) { std::swap(items[at], items[at + 1]); what += sfmt("swap(%d,%d) ", d, items[at].idx); D = std::max(D, std::max(d, items[at].idx)); } break;
      case 6: items[at].restart_before = true; what += sfmt("restart before(%d) ", d); D = std::max(D, d); break;
      case 7: fresh_start = true; fresh_at = d; what += sfmt("fresh decoder at(%d) ", d); D = std::max(D, d); break;
    }
  }
  if (D < 0) { r.label("no disturbance applied"); return true; }
  if (fresh_start) { std::vector<Item> cut; for (auto &it : items) if (it.idx >= fresh_at) cut.push_back(it); items = cut; }
  Segs X; std::vector<int> rej; std::string err2;
  if (!decode_items(s, items, X, rej, err2)) return r.fail("disturbed decode: %s [%s] [%s]", err2.c_str(), what.c_str(), desc.c_str());
  std::string cd = desc + " | " + what;
  // ---- oracle: every segment from the second packet after the last disturbance on (and every segment before the first) is bit-identical
  // to what the same two packets give in the clean decode, cut by the decoder's granule-position bookkeeping for the sequence it actually saw
  auto tm = model_trims(items, s.bs0, s.bs1);
  int compared = 0; bool effect = false;
  for (int k = 0; k < np; k++) {
    auto a = O.find(k), b = X.find(k);
    bool inside = (k >= first_d && k <= D + 1) || (fresh_start && k <= fresh_at + 1);
    if (inside) { if (a != O.end() && (b == X.end() || !pcm_equal(a->second, b->second))) effect = true; continue; }
    if (b == X.end()) return r.fail("packet %d (%d after the last disturbance) produced no output in the disturbed decode%s [%s]", k, k - D, std::find(rej.begin(), rej.end(), k) != rej.end() ? " (rejected by vorbis_synthesis)" : "", cd.c_str());
    PCM want = expect(k, tm[k]); std::string why;
    if (!pcm_equal(want, b->second, &why)) return r.fail("segment of packet %d (%s the disturbance at %d..%d) differs from what packets %d and %d give in the undisturbed decode: %s (expected cut %d/%d) [%s]", k, k < first_d ? "before" : "two or more packets after", first_d, D, k - 1, k, why.c_str(), tm[k].begin, tm[k].end, cd.c_str());
    if (tm[k].begin || tm[k].end) r.label("segment cut by granule bookkeeping compared");
    compared++;
  }
  r.label(what.substr(0, what.find('(')));
  if (ndist > 1) r.label("several disturbances");
  if (effect) { r.label("disturbance changed its own neighbourhood"); r.nontriv(fnv1a(cd.data(), cd.size())); }
  if (!rej.empty()) r.label("a damaged packet was rejected");

  // ---- the same through vorbisfile: the damaged stream is re-paged with valid checksums; audio outside the neighbourhood, located by
  // ov_pcm_tell, must be bit-identical to the clean decode
  if (!pure && !fresh_start && t.chance(1, 2)) {
    DecodeResult full; LStream cs = s; cs.audio = clean; for (int k = 0; k < np; k++) cs.audio[k].granulepos = s.audio[k].granulepos;   // true positions for paging
    if (!decode_packets(cs, full)) return r.harness("clean packet decode failed");
    LStream ds = cs; ds.audio.clear(); for (auto &it : items) { Pkt p = it.p; p.granulepos = s.audio[it.idx].granulepos; p.eos = s.audio[it.idx].eos; ds.audio.push_back(p); }
    if (!ds.audio.empty()) ds.audio.back().eos = true;
    Chain c; c.links.push_back(ds); std::vector<Layout> lays{Layout::gen(t)}; if (lays[0].style == 3) lays[0].style = 2; build_chain(c, lays);
    // the position of the stream start is inferred from the first audio page: damage there legitimately moves every position
    int first_audio_page = -1, dist_page = -1; for (size_t pi = 0; pi < c.pages.size(); pi++) { auto &pg = c.pages[pi]; if (pg.last_completed_pkt >= 3 && first_audio_page < 0) first_audio_page = (int)pi; if (dist_page < 0 && pg.last_completed_pkt >= 3 && items[(size_t)pg.last_completed_pkt - 3].idx >= first_d - 1) dist_page = (int)pi; }
    MemSrc ms; ms.data = &c.bytes; ms.budget = vf_budget(c) * 4; OggVorbis_File vf; ms.mark();
    int orr = (dist_page > first_audio_page && first_audio_page >= 0) ? ov_open_callbacks(&ms, &vf, NULL, 0, ms_callbacks(true)) : -9999;
    if (orr == -9999) r.label("vorbisfile arm skipped: damage on the first audio page");
    else if (orr == 0) {
      // clean position where the disturbed neighbourhood begins / where audio is clean again (end of segment D+1, then the next page boundary)
      int64_t startpos = 0; { int64_t acc = 0; for (int k = 0; k < first_d; k++) acc = s.audio[k].granulepos; startpos = first_d > 0 ? s.audio[first_d - 1].granulepos : 0; (void)acc; }
      // vorbisfile re-derives its position at the last packet of every page that is not the final one: positions are trustworthy again
      // from the end of the first such page that lies wholly behind the neighbourhood
      int64_t cleanfrom = -1; for (auto &pg : c.pages) { if (pg.last_completed_pkt < 3 || pg.first_pkt < 3 || (pg.flags & 4) || pg.granulepos < 0) continue; int firstidx = items[(size_t)pg.first_pkt - 3].idx; if (firstidx >= D + 3) { cleanfrom = pg.granulepos; break; } }
      long holes = 0, cmp = 0; bool bad = false; std::string why;
      for (int it2 = 0; it2 < 100000 && !bad; it2++) {
        int64_t pos = ov_pcm_tell(&vf); float **pcm; int bs; ms.mark(); long n = ov_read_float(&vf, &pcm, 4096, &bs);
        if (getenv("VERIF_VERBOSE")) fprintf(stderr, "vf read at %lld -> %ld\n", (long long)pos, n);
        if (n == 0) break;
        if (n == OV_HOLE || n == OV_EBADLINK || n == OV_EBADPACKET) { holes++; if (holes > 64) break; continue; }
        if (n < 0) { why = sfmt("ov_read_float returned %ld on a stream with one damaged region", n); bad = true; break; }
        for (long i = 0; i < n && !bad; i++) {
          int64_t p = pos + i; bool before = p < startpos - s.bs1, after = cleanfrom >= 0 && p >= cleanfrom + s.bs1;   // one long block of slack on both sides of the neighbourhood
          if (!(before || after) || p < 0 || p >= full.total()) continue;
          if (what.find("drop") != std::string::npos || what.find("dup") != std::string::npos || what.find("swap") != std::string::npos) { if (after) continue; }   // positions shift after a removed/added packet until vorbisfile resynchronises: only the part before is comparable by position
          for (int q = 0; q < s.channels; q++) if (memcmp(&pcm[q][i], &full.pcm[q][p], sizeof(float))) { why = sfmt("vorbisfile: sample at position %lld channel %d differs from the clean decode (%.9g vs %.9g); neighbourhood is [%lld,%lld)", (long long)p, q, pcm[q][i], full.pcm[q][p], (long long)startpos, (long long)cleanfrom); bad = true; break; }
          cmp++;
        }
      }
      ov_clear(&vf);
      if (bad) return r.fail("%s [%s]", why.c_str(), cd.c_str());
      if (cmp) r.label("vorbisfile arm compared samples");
    } else r.label("vorbisfile refuses the damaged stream at open");
  }
  if (r.want_sample()) r.sample(cd + sfmt(" compared=%d", compared));
  return true;
}
