// C06: decoded audio is time-aligned with the input, finite and quality-bounded.
#include "../common.h"
const char *prop_id() { return "C06"; }

// quality floor (dB) for in-band multitones, by quality setting: calibrated on the unchanged tree (see DESIGN.md 3.7; table produced by
// `VERIF_C06_CALIBRATE=1 ./check C06 thorough`, worst observed value minus 6 dB), interpolated linearly in q
static double snr_floor(double q) { static const double qs[] = {-0.1, 0.0, 0.2, 0.4, 0.6, 0.8, 1.0}; static const double fl[] = {-2, 8, 10, 20, 23, 27, 28};   // worst observed over the calibration runs: 6.4 16.0 18.3 28.5 31.5 35.7 36.3 dB
  if (q <= qs[0]) return fl[0]; for (int i = 1; i < 7; i++) if (q <= qs[i]) return fl[i - 1] + (fl[i] - fl[i - 1]) * (q - qs[i - 1]) / (qs[i] - qs[i - 1]); return fl[6]; }

struct Enc1 { LStream s; PCM in, out; double lowpass_khz = 0; int ret = 0; std::string err; };

static bool run_codec(const EncCfg &cfg, const std::function<void(int, int64_t, int, float *)> &fill, int64_t N, Enc1 &o) {
  vorbis_info vi; vorbis_info_init(&vi); int sr;
  if (cfg.mode == 0) sr = vorbis_encode_setup_vbr(&vi, cfg.channels, cfg.rate, cfg.quality); else sr = vorbis_encode_setup_managed(&vi, cfg.channels, cfg.rate, cfg.br_max, cfg.br_nom, cfg.br_min);
  if (sr) { vorbis_info_clear(&vi); o.ret = sr; return false; }
  vorbis_encode_ctl(&vi, OV_ECTL_LOWPASS_GET, &o.lowpass_khz);
  sr = vorbis_encode_setup_init(&vi); if (sr) { vorbis_info_clear(&vi); o.ret = sr; return false; }
  vorbis_dsp_state vd; vorbis_block vb; vorbis_comment vc; vorbis_comment_init(&vc); vorbis_analysis_init(&vd, &vi); vorbis_block_init(&vd, &vb);
  ogg_packet h[3]; vorbis_analysis_headerout(&vd, &vc, &h[0], &h[1], &h[2]); for (int i = 0; i < 3; i++) o.s.hdr[i] = Pkt::from_ogg(h[i]);
  o.s.channels = cfg.channels; o.s.rate = cfg.rate; o.s.bs0 = vorbis_info_blocksize(&vi, 0); o.s.bs1 = vorbis_info_blocksize(&vi, 1);
  o.in.assign(cfg.channels, std::vector<float>((size_t)N)); for (int c = 0; c < cfg.channels; c++) fill(c, 0, (int)N, o.in[c].data());
  auto drain = [&]() { while (vorbis_analysis_blockout(&vd, &vb) == 1) { vorbis_analysis(&vb, NULL); vorbis_bitrate_addblock(&vb); ogg_packet op; while (vorbis_bitrate_flushpacket(&vd, &op) == 1) o.s.audio.push_back(Pkt::from_ogg(op)); } };
  for (int64_t d = 0; d < N; d += 4096) { int n = (int)std::min<int64_t>(4096, N - d); float **b = vorbis_analysis_buffer(&vd, n); for (int c = 0; c < cfg.channels; c++) memcpy(b[c], o.in[c].data() + d, sizeof(float) * n); vorbis_analysis_wrote(&vd, n); drain(); }
  vorbis_analysis_wrote(&vd, 0); drain();
  vorbis_block_clear(&vb); vorbis_dsp_clear(&vd); vorbis_comment_clear(&vc); vorbis_info_clear(&vi);
  DecodeResult dr; if (!decode_packets(o.s, dr)) { o.err = "decode failed"; return false; } o.out = dr.pcm; return true;
}

static double snr_db(const std::vector<float> &x, const std::vector<float> &y, size_t a, size_t b) { double sx = 0, se = 0; for (size_t i = a; i < b; i++) { sx += (double)x[i] * x[i]; double e = (double)x[i] - y[i]; se += e * e; } return 10 * log10((sx + 1e-30) / (se + 1e-30)); }

bool prop_run(Tape &t, Report &r) {
  EncCfg cfg; static const int chs[] = {1, 2, 3, 6, 4, 8}; cfg.channels = chs[t.weighted({5, 6, 2, 1, 1, 1})];
  static const long rates[] = {44100, 48000, 32000, 22050, 16000, 11025, 8000, 96000}; cfg.rate = rates[t.weighted({6, 2, 2, 2, 2, 1, 2, 1})];
  cfg.mode = t.chance(1, 5) ? 1 : 0; cfg.quality = (float)(t.range(-1, 10) / 10.0);
  if (cfg.mode == 1) { cfg.br_nom = (long)((40000 + 4000 * (long)t.below(20)) * std::max(0.25, cfg.rate / 44100.0)) * std::min(cfg.channels, 2); cfg.br_max = cfg.br_min = -1; }
  bool calibrate = getenv("VERIF_C06_CALIBRATE") != nullptr;
  int cls = t.weighted({3, 2, 3});   // 0 band-limited noise (alignment), 1 click trains (alignment), 2 in-band multitone (quality)
  uint32_t seed = t.raw() | 1; int period = 40 + (int)t.below(360); int npart = 2 + (int)t.below(5); double pf[8]; for (int i = 0; i < 8; i++) pf[i] = (30 + t.below(700)) / 1000.0;   // fraction of the usable band
  double amp = 0.1 + 0.1 * t.below(8);
  // probe the template's lowpass and block size with a dry run of the set-up
  Enc1 probe; { vorbis_info vi; vorbis_info_init(&vi); int sr = cfg.mode == 0 ? vorbis_encode_setup_vbr(&vi, cfg.channels, cfg.rate, cfg.quality) : vorbis_encode_setup_managed(&vi, cfg.channels, cfg.rate, cfg.br_max, cfg.br_nom, cfg.br_min);
    if (sr) { vorbis_info_clear(&vi); r.label("setup_refused"); return true; } vorbis_encode_ctl(&vi, OV_ECTL_LOWPASS_GET, &probe.lowpass_khz); if (vorbis_encode_setup_init(&vi)) { vorbis_info_clear(&vi); r.label("setup_refused"); return true; } probe.s.bs1 = vorbis_info_blocksize(&vi, 1); vorbis_info_clear(&vi); }
  int bs1 = probe.s.bs1; double nyq = cfg.rate / 2000.0; double band = std::min(probe.lowpass_khz, nyq) * 0.8 / nyq;   // usable band as a fraction of Nyquist
  int64_t N = (int64_t)bs1 * (7 + t.below(5)) + t.below(1000); if ((int64_t)cfg.channels * N > 400000) N = 400000 / cfg.channels;
  // signal: channel c gets its own content
  auto fill = [&](int c, int64_t i0, int n, float *out) {
    if (cls == 0) {   // noise through a short moving-average low-pass: broadband inside the coder's band, sharp autocorrelation
      for (int k = 0; k < n; k++) { double v = 0; for (int j = 0; j < 3; j++) { uint64_t h = mix64(((uint64_t)seed << 32) ^ (uint64_t)(i0 + k + j) ^ ((uint64_t)c << 56)); v += ((double)(h >> 11) / 9007199254740992.0) * 2 - 1; } out[k] = (float)(amp * v / 3 * 1.7); }
    } else if (cls == 1) {   // clicks at pseudo-random (aperiodic) positions, about one per `period` samples, different per channel
      for (int k = 0; k < n; k++) { int64_t i = i0 + k; double v = 0;
        for (int back = 0; back < 3; back++) { int64_t j = i - back; if (j < 0) continue; uint64_t h = mix64(((uint64_t)seed << 20) ^ (uint64_t)j ^ ((uint64_t)c << 50)); if (h % (uint64_t)period) continue;
          double a = (((double)((h >> 20) & 0xffff) / 65535.0) * 2 - 1); a += a < 0 ? -0.3 : 0.3; static const double shape[3] = {1.0, -0.5, 0.2}; v += a * shape[back]; }
        out[k] = (float)(amp * 1.5 * v); }
    } else { for (int k = 0; k < n; k++) { double v = 0; for (int p = 0; p < npart; p++) { double fr = band * pf[(p + 3 * c) & 7]; v += sin(M_PI * fr * (double)(i0 + k) + p + c); } out[k] = (float)(amp * v / npart); } }
  };
  Enc1 e; if (!run_codec(cfg, fill, N, e)) { if (e.ret) { r.label("setup_refused"); return true; } return r.fail("encode/decode failed: %s [%s]", e.err.c_str(), cfg.desc().c_str()); }
  std::string cd = cfg.desc() + sfmt(" class=%d N=%lld bs1=%d lowpass=%.1fkHz band=%.3f amp=%.2f seed=%u period=%d partials=%d", cls, (long long)N, bs1, e.lowpass_khz, band, amp, seed, period, npart);
  if ((int64_t)e.out[0].size() != N) return r.fail("decoded %zu samples for %lld submitted (C04 territory) [%s]", e.out[0].size(), (long long)N, cd.c_str());
  // (a) finite, (d) peak
  double pin = 0, pout = 0; for (int c = 0; c < cfg.channels; c++) for (int64_t i = 0; i < N; i++) { float y = e.out[c][i]; if (!std::isfinite(y)) return r.fail("non-finite output sample (channel %d, %lld) [%s]", c, (long long)i, cd.c_str()); pin = std::max(pin, (double)fabsf(e.in[c][i])); pout = std::max(pout, (double)fabsf(y)); }
  r.metric_max(sfmt("peak(out)/peak(in), class %d", cls), pout / std::max(pin, 1e-9));
  if (!calibrate && pout > 3.5 * pin + 0.05) return r.fail("output peak %.3f for input peak %.3f (more than 3.5x + 0.05; twice the worst overshoot seen in calibration, 1.74x) [%s]", pout, pin, cd.c_str());
  size_t a0 = (size_t)bs1, a1 = (size_t)(N - bs1);
  if (cls != 2) {
    // (b) alignment: the lag maximising the cross-correlation of input and output must be exactly 0
    int L = std::min(bs1, 2048), W = (int)std::min<int64_t>(N - 2 * (int64_t)bs1 - 2 * L - 2, 6000); if (W < 1000) { r.label("too short for the alignment window"); }
    else {
      int cc = (int)t.below((uint32_t)cfg.channels); size_t base = (size_t)bs1 + L; double best = -1e300; int bestlag = 0; double c0 = 0;
      for (int lag = -L; lag <= L; lag++) { double sacc = 0; const float *x = e.in[cc].data() + base, *y = e.out[cc].data() + base + lag; for (int i = 0; i < W; i++) sacc += (double)x[i] * y[i]; if (lag == 0) c0 = sacc; if (sacc > best) { best = sacc; bestlag = lag; } }
      double ex = 0, ey = 0; { const float *x = e.in[cc].data() + base, *y = e.out[cc].data() + base; for (int i = 0; i < W; i++) { ex += (double)x[i] * x[i]; ey += (double)y[i] * y[i]; } }
      if (ex < 1e-4 || best < 0.2 * sqrt(ex * ey + 1e-30)) { r.label("alignment undecidable (too little correlated energy in the window)"); }
      // a flat maximum (the heavily low-passed LFE channel of 5.1: the cross-correlation is the low-pass's own broad impulse response) does not
      // locate the lag: only a maximum that exceeds lag 0 by more than the estimate's own noise decides
      else if (bestlag != 0 && best - c0 <= std::max(0.1 * best, 0.03 * sqrt(ex * ey))) { r.label("alignment undecidable (flat correlation maximum)"); }
      else if (bestlag != 0) return r.fail("channel %d: the output is best aligned with the input at lag %d samples (correlation %.4g there, %.4g at lag 0) [%s]", cc, bestlag, best, c0, cd.c_str());
      else r.label("alignment checked (lag 0 is the correlation maximum)");
    }
    // (c) channels not permuted: row maxima of the zero-lag correlation matrix on the diagonal
    if (cfg.channels > 1) {
      for (int i = 0; i < cfg.channels; i++) { double bestv = -1e300; int bestj = -1; for (int j = 0; j < cfg.channels; j++) { double sacc = 0, ny = 0; for (size_t k = a0; k < a1; k++) { sacc += (double)e.in[i][k] * e.out[j][k]; ny += (double)e.out[j][k] * e.out[j][k]; } double v = sacc / sqrt(ny + 1e-30); if (v > bestv) { bestv = v; bestj = j; } }
        double nx = 0; for (size_t k = a0; k < a1; k++) nx += (double)e.in[i][k] * e.in[i][k];
        if (bestv < 0.3 * sqrt(nx)) { r.label("channel order undecidable (weak correlation)"); continue; }
        if (bestj != i) return r.fail("input channel %d correlates best with output channel %d [%s]", i, bestj, cd.c_str()); }
      r.label("channel order checked");
    }
  } else {
    // (e) quality of in-band multitones, absolute floor by quality and monotone in quality on the same signal
    double worst = 1e300; for (int c = 0; c < cfg.channels; c++) worst = std::min(worst, snr_db(e.in[c], e.out[c], a0, a1));
    double q = cfg.mode == 0 ? cfg.quality : 0.2; if (cfg.mode == 0 && cfg.channels <= 2) r.metric_max(sfmt("minus SNR (dB) at q=%.1f", (double)((int)(q * 10 + (q < 0 ? -0.5 : 0.5))) / 10), -worst);
    if (!calibrate && cfg.mode == 0 && cfg.channels <= 2 && worst < snr_floor(q)) return r.fail("in-band multitone reconstructed with %.1f dB SNR at quality %.1f (floor %.1f dB) [%s]", worst, q, snr_floor(q), cd.c_str());
    if (cfg.mode == 0 && cfg.quality <= 0.55f && cfg.channels <= 2) {
      EncCfg hi = cfg; hi.quality = cfg.quality + 0.4f; Enc1 e2;
      if (run_codec(hi, fill, N, e2) && (int64_t)e2.out[0].size() == N) { double w2 = 1e300; for (int c = 0; c < cfg.channels; c++) w2 = std::min(w2, snr_db(e2.in[c], e2.out[c], a0, a1)); r.metric_max("SNR(q) - SNR(q+0.4) (dB)", worst - w2);
        if (!calibrate && w2 < worst - 3.0) return r.fail("quality %.1f gives %.1f dB SNR but quality %.1f only %.1f dB on the same signal [%s]", cfg.quality, worst, hi.quality, w2, cd.c_str()); r.label("quality monotonicity checked"); }
    }
    r.label("SNR checked");
  }
  r.label(sfmt("class %d", cls)); r.label(cfg.mode ? "managed" : "vbr");
  double rms = 0; for (int64_t i = 0; i < N; i++) rms += (double)e.in[0][i] * e.in[0][i]; rms = sqrt(rms / N);
  if (rms > 0.01 && N >= 6 * (int64_t)bs1) r.nontriv(fnv1a(cd.data(), cd.size())); if (r.want_sample()) r.sample(cd);
  return true;
}
