// C19: lapped seeks differ from plain seeks only inside the first half short block (twin handles: A lapped, B plain).
#include "../vfmodel.h"
const char *prop_id() { return "C19"; }

struct Handle {
  MemSrc ms; OggVorbis_File vf; bool open = false;
  ~Handle() { close(); }
  void close() { if (open) ov_clear(&vf); open = false; }
  int start(const Chain &c) { close(); ms = MemSrc(); ms.data = &c.bytes; ms.budget = vf_budget(c); ms.mark(); int r = ov_open_callbacks(&ms, &vf, NULL, 0, ms_callbacks(true)); open = r == 0; return r; }
};

struct Run {
  bool lap_residue = false;   // a lapped call whose lap region could not be consumed before the stream ended: spliced samples stay in the decoder's overlap area
  Tape &t; Report &r; Chain c; GT g; std::vector<LinkMeta> meta; std::string desc, hist; Handle A, B, C; int hs = 0; bool nontriv = false;
  std::vector<double> tstart; double duration = 0; std::vector<char> link_finite; bool all_finite = true;   // reference decode of the link is finite and of sane magnitude throughout (lap data can carry non-finite values from one lapped call to the next)
  Run(Tape &t_, Report &r_) : t(t_), r(r_) {}
  // half a short block of link l, in output samples
  int half_short(int l) const { return c.links[l].bs0 >> (1 + hs); }
  // sample k (in output samples) after full-rate position p inside link l, from the reference decode; false when it does not exist
  bool ref_sample(int l, int64_t p, int64_t k, int ch, float &out) const {
    const PCM &ref = hs ? g.half[l] : g.pcm[l]; if (ch >= (int)ref.size()) return false;
    int64_t off = p - g.start[l]; if (hs) { if (off & 1) return false; off >>= 1; }
    if (off < 0 || off + k >= (int64_t)ref[ch].size()) return false; out = ref[ch][off + k]; return true;
  }
  static double win(int n, int i) { double s = sin((i + 0.5) / n * M_PI / 2); return sin(M_PI / 2 * s * s); }
  bool reopen() { lap_residue = false; if (A.start(c) || B.start(c)) return r.fail("ov_open_callbacks failed on an intact file [%s]", desc.c_str()); if (hs) { if (ov_halfrate(&A.vf, 1) || ov_halfrate(&B.vf, 1)) return r.fail("ov_halfrate(1) refused [%s]", desc.c_str()); } return true; }
  bool twins_equal(const char *when) {
    if (ov_pcm_tell(&A.vf) != ov_pcm_tell(&B.vf)) return r.fail("%s: lapped handle at %lld, plain handle at %lld [hist %s] [%s]", when, (long long)ov_pcm_tell(&A.vf), (long long)ov_pcm_tell(&B.vf), hist.c_str(), desc.c_str());
    return true;
  }
  // plain step on both handles (kept identical)
  bool plain_read(int req) {
    float **pa, **pb; int ba = -1, bb = -1; long na = ov_read_float(&A.vf, &pa, req, &ba), nb = ov_read_float(&B.vf, &pb, req, &bb); hist += sfmt("rf(%d)=%ld ", req, na);
    if (na != nb || (na > 0 && ba != bb)) return r.harness("twin handles diverge on a plain read: %ld/%ld link %d/%d [hist %s] [%s]", na, nb, ba, bb, hist.c_str(), desc.c_str());
    for (int q = 0; na > 0 && q < c.links[ba].channels; q++) if (memcmp(pa[q], pb[q], (size_t)na * sizeof(float))) return r.harness("twin handles deliver different audio on a plain read [hist %s] [%s]", hist.c_str(), desc.c_str());
    return true;
  }
  // after a lapped operation on A and the plain counterpart on B (both succeeded, same tell): compare the audio that follows.
  // l_old/pos_old: link and position A was decoding before the call (l_old < 0: unknown -> no prediction of the old audio); src: handle that supplied the old audio in ov_crosslap (else null)
  bool compare_after(const char *name, int l_old, int64_t pos_old, int ch_old, int n_old) {
    int64_t T = ov_pcm_tell(&B.vf); int64_t done = 0; int n = -1, l_new = -1; bool predicted_all = true; long checked_fade = 0; long avail0 = -1;
    for (int round = 0; round < 40; round++) {
      float **pa, **pb; int ba = -1, bb = -1; int req = round == 0 ? 8192 : std::max<int>(1 + (int)t.below(3000), n >= 0 ? (int)(n + 64 - done) : 1);   // the whole lap region is consumed before the next step, so that the next 'old' audio is again the reference decode
      long na = ov_read_float(&A.vf, &pa, req, &ba), nb = ov_read_float(&B.vf, &pb, req, &bb);
      if (na != nb) return r.fail("after %s: the lapped handle returns %ld samples where the plain handle returns %ld (position %lld+%lld) [hist %s] [%s]", name, na, nb, (long long)T, (long long)done, hist.c_str(), desc.c_str());
      hist += sfmt("[rf(%d)=%ld]", req, na);
      if (na <= 0) break;
      if (ba != bb) return r.fail("after %s: *bitstream %d on the lapped handle, %d on the plain one [hist %s] [%s]", name, ba, bb, hist.c_str(), desc.c_str());
      if (n < 0) { l_new = bb; n = std::min(n_old, half_short(l_new)); avail0 = na; if (avail0 < n) r.label("fewer finished samples than the lap region after the seek"); }
      int ch = c.links[bb].channels;
      for (long i = 0; i < na; i++) for (int q = 0; q < ch; q++) {
        int64_t k = done + i; float a = pa[q][i], b = pb[q][i];
        if (k >= n || bb != l_new) { if (memcmp(&a, &b, sizeof a)) return r.fail("after %s: sample %lld after the landing position (channel %d) differs from the plain seek (%.9g vs %.9g) although it lies beyond the first half short block (%d samples) [hist %s] [%s]", name, (long long)k, q, a, b, n, hist.c_str(), desc.c_str()); continue; }
        double w = win(n, (int)k), wd = w * w, ws = 1 - wd; float old = 0; bool known = true;
        if (q >= ch_old) { old = 0; ws = 0; }   // channel only in the new link: windowed from zero
        else if (l_old < 0 || !ref_sample(l_old, pos_old, k, q, old)) known = false;
        // the splice is applied to the decoder's buffer: samples that were not finished yet (still to be overlapped with the next block) are
        // cross-faded before that overlap, so the simple formula only describes the samples that were already finished
        if (k >= avail0) known = false;   // beyond the end of the old link: the decoder's overlap half, not part of the reference decode
        if (!known) { predicted_all = false; if (all_finite && std::isfinite(b) && !std::isfinite(a)) return r.fail("after %s: non-finite sample in the cross-fade region (sample %lld channel %d: lapped %.9g, plain %.9g, n %d, first batch %ld) [hist %s] [%s]", name, (long long)k, q, a, b, n, avail0, hist.c_str(), desc.c_str()); continue; }
        double want = (double)b * wd + (double)old * ws, tol = 2e-6 * (fabs((double)b) + fabs((double)old)) + 1e-30;
        if (std::isfinite(want) && !(fabs((double)a - want) <= tol)) return r.fail("after %s: cross-fade sample %lld channel %d is %.9g, expected new*w^2+old*(1-w^2) = %.9g (new %.9g, old %.9g, w %.6f, n %d, old link %d pos %lld) [hist %s] [%s]", name, (long long)k, q, a, want, b, old, w, n, l_old, (long long)pos_old, hist.c_str(), desc.c_str());
        checked_fade++;
      }
      done += na;
      if (n >= 0 && done >= n + 64 && round >= 1) break;
    }
    if (!twins_equal(name)) return false;
    if (n < 0 || done < n) lap_residue = true;
    if (checked_fade) r.label("cross-fade formula checked"); if (!predicted_all) r.label("old audio partly beyond the reference (extrapolated lap)");
    if (checked_fade && predicted_all && l_new >= 0 && l_old >= 0 && l_new != l_old && (c.links[l_new].channels != c.links[l_old].channels || c.links[l_new].bs0 != c.links[l_old].bs0)) { nontriv = true; r.label("lap across links with different channels or short block"); }
    if (checked_fade && predicted_all) nontriv = nontriv || (l_new != l_old);
    return true;
  }

  bool run() {
    ChainOpts o; o.maxlinks = 3; o.maxN = 24000; o.comments = false; o.vgen_pct = 35; o.maxch = 6; o.half = true;
    bool want_hs = t.chance(1, 5); o.even_interior = want_hs; if (want_hs) { o.vgen_64_pct = 0; o.vgen_min_bslog = 7; }
    if (!gen_chain(t, r, o, c, g, meta, desc)) return false;
    hs = want_hs ? 1 : 0; if (hs) r.label("half rate");
    { double acc = 0; for (size_t l = 0; l < c.links.size(); l++) { tstart.push_back(acc); acc += (double)g.len[l] / (double)c.links[l].rate; } duration = acc; }
    for (size_t l = 0; l < c.links.size(); l++) { bool fin = true; for (auto &chv : g.pcm[l]) for (float x : chv) if (!(fabsf(x) < 1e18f)) fin = false; if (!g.tail_sane[l]) fin = false;   // lapping at the end of a link reaches into the decoder's unfinished half block
      link_finite.push_back(fin); if (!fin) all_finite = false; if (!fin) r.label("link whose decode is not finite (synthetic)"); }
    if (!reopen()) return false;
    r.label(sfmt("links=%zu", c.links.size()));
    int nops = 1 + (int)t.below(10);
    for (int k = 0; k < nops; k++) {
      // some plain history, identical on both handles
      int pre = t.weighted({3, 3, 2, 1, 1});
      if (pre == 1) { if (!plain_read(1 + (int)t.below(5000))) return false; }
      else if (pre == 2) { int64_t p = (int64_t)t.spread((uint32_t)std::min<int64_t>(g.total + 1, 0x7fffffff)); hist += sfmt("seek(%lld) ", (long long)p); int ra = ov_pcm_seek(&A.vf, p), rb = ov_pcm_seek(&B.vf, p); if (ra != rb) return r.harness("twins diverge on a plain seek"); }
      else if (pre == 3) { for (int q = 0; q < 200; q++) { float **pa; int b; long n1 = ov_read_float(&A.vf, &pa, 4096, &b), n2 = ov_read_float(&B.vf, &pa, 4096, &b); if (n1 != n2) return r.harness("twins diverge reading to the end"); if (n1 <= 0) break; } hist += "to-end "; r.label("old position at end of stream"); }
      else if (pre == 4) { // position both a little before the end of a link
        int l = (int)t.below((uint32_t)c.links.size()); int64_t back = (int64_t)t.below(3 * (uint32_t)std::max(1, half_short(l) << hs)); int64_t p = g.start[l] + std::max<int64_t>(0, g.len[l] - back); if (p > g.total) p = g.total;
        hist += sfmt("seek(%lld) ", (long long)p); int ra = ov_pcm_seek(&A.vf, p), rb = ov_pcm_seek(&B.vf, p); if (ra != rb) return r.harness("twins diverge on a plain seek"); if (t.chance(1, 2)) if (!plain_read(1 + (int)t.below(64))) return false; r.label("old position near a link end");
      }
      if (!twins_equal("before the lapped call")) return false;
      int64_t pos_old = ov_pcm_tell(&A.vf); int rs_old = A.vf.ready_state; int l_old = rs_old >= STREAMSET ? A.vf.current_link : -1;
      // the link whose audio comes next when the handle has no stream set: the one containing the position
      if (l_old < 0) { l_old = g.link_of(pos_old); }
      int ch_old = l_old >= 0 ? c.links[l_old].channels : 0, n_old = l_old >= 0 ? half_short(l_old) : (1 << 20);
      int what = t.weighted({4, 3, 2, 2, 2, 2});
      if (what == 5) {
        // ---- ov_crosslap(C, A): C supplies the old audio, A (twin of B) is altered
        if (C.start(c)) return r.fail("third open failed [%s]", desc.c_str());
        if (hs && ov_halfrate(&C.vf, 1)) return r.fail("ov_halfrate refused on third handle [%s]", desc.c_str());
        int64_t pc = (int64_t)t.spread((uint32_t)std::min<int64_t>(g.total + 1, 0x7fffffff)); if (ov_pcm_seek(&C.vf, pc)) return r.fail("ov_pcm_seek(%lld) failed on third handle [%s]", (long long)pc, desc.c_str());
        if (t.chance(1, 2)) { float **pp; int b; ov_read_float(&C.vf, &pp, 1 + (int)t.below(300), &b); }
        int64_t posC = ov_pcm_tell(&C.vf); int lC = C.vf.ready_state >= STREAMSET ? C.vf.current_link : g.link_of(posC);
        hist += sfmt("crosslap(from %lld) ", (long long)posC);
        int ret = ov_crosslap(&C.vf, &A.vf); r.label("op ov_crosslap");
        bool a_has_audio = false; { int la = g.link_of(pos_old); a_has_audio = la >= 0 && (A.vf.ready_state < STREAMSET || la == A.vf.current_link || true); }
        if (ret == OV_EOF) { r.label("ov_crosslap reports end of file"); if (lC >= 0 && posC < g.total && a_has_audio && rs_old == INITSET && g.link_of(pos_old) == l_old) return r.fail("ov_crosslap returned OV_EOF although audio follows both positions (%lld, %lld) [hist %s] [%s]", (long long)posC, (long long)pos_old, hist.c_str(), desc.c_str()); if (!reopen()) return false; continue; }
        if (ret != 0) return r.fail("ov_crosslap returned %d [hist %s] [%s]", ret, hist.c_str(), desc.c_str());
        if (lC < 0) { if (!reopen()) return false; continue; }
        if (!compare_after("ov_crosslap", lC, posC, c.links[lC].channels, half_short(lC))) return false;
        continue;
      }
      // ---- X_lap(A) vs X(B)
      if (getenv("VERIF_VERBOSE")) fprintf(stderr, "before lapped op %d: pos_old=%lld rs=%d l_old=%d pcm_returned=%d pcm_current=%d centerW=%ld lW=%ld W=%ld hist %s [%s]\n", what, (long long)pos_old, rs_old, l_old, A.vf.vd.pcm_returned, A.vf.vd.pcm_current, A.vf.vd.centerW, A.vf.vd.lW, A.vf.vd.W, hist.c_str(), desc.c_str());
      static const char *names[] = {"ov_pcm_seek_lap", "ov_pcm_seek_page_lap", "ov_time_seek_lap", "ov_time_seek_page_lap", "ov_raw_seek_lap"};
      bool outofrange = t.chance(1, 10); int ra, rb; std::string nm = names[what];
      // history independence: in one of four lapped calls BOTH handles make the lapped call.  A's earlier seeks were lapped, B's plain, and every lap
      // region has been consumed since, so the two handles are in equivalent states: the results must be bit-identical, lap region included.
      bool both = t.chance(1, 4) && !lap_residue;
      if (what == 4) { int64_t b = outofrange ? (int64_t)c.bytes.size() + 1 + t.below(100) : (int64_t)t.spread((uint32_t)c.bytes.size() + 1); hist += sfmt("%s(%lld)", nm.c_str(), (long long)b); ra = ov_raw_seek_lap(&A.vf, b); rb = both ? ov_raw_seek_lap(&B.vf, b) : ov_raw_seek(&B.vf, b); }
      else if (what <= 1) { int64_t p = outofrange ? (t.chance(1, 2) ? g.total + 1 + t.below(100) : -1 - (int64_t)t.below(100)) : (int64_t)t.spread((uint32_t)std::min<int64_t>(g.total + 1, 0x7fffffff));
        if (!outofrange && t.chance(1, 3)) { int l = (int)t.below((uint32_t)c.links.size()); p = g.start[l] + (t.chance(1, 2) ? 0 : std::max<int64_t>(0, g.len[l] - (int64_t)t.below(200))); }
        hist += sfmt("%s(%lld)", nm.c_str(), (long long)p); if (what == 0) { ra = ov_pcm_seek_lap(&A.vf, p); rb = both ? ov_pcm_seek_lap(&B.vf, p) : ov_pcm_seek(&B.vf, p); } else { ra = ov_pcm_seek_page_lap(&A.vf, p); rb = both ? ov_pcm_seek_page_lap(&B.vf, p) : ov_pcm_seek_page(&B.vf, p); } }
      else { double s = outofrange ? (t.chance(1, 2) ? duration + 0.5 : -0.25) : duration * (double)t.below(1001) / 1000.0; if (!outofrange && s >= duration) s = duration * 0.999; hist += sfmt("%s(%.6f)", nm.c_str(), s);
        if (what == 2) { ra = ov_time_seek_lap(&A.vf, s); rb = both ? ov_time_seek_lap(&B.vf, s) : ov_time_seek(&B.vf, s); } else { ra = ov_time_seek_page_lap(&A.vf, s); rb = both ? ov_time_seek_page_lap(&B.vf, s) : ov_time_seek_page(&B.vf, s); } }
      hist += sfmt("=%d/%d@%lld/%lld ", ra, rb, (long long)ov_pcm_tell(&A.vf), (long long)ov_pcm_tell(&B.vf)); r.label("op " + nm); if (outofrange) r.label("out-of-range target");
      if (both) {
        hist += "(both lapped) "; r.label("both handles lapped (history independence)");
        if (ra != rb) return r.fail("%s returns %d on a handle whose earlier seeks were lapped and %d on one whose earlier seeks were plain [hist %s] [%s]", nm.c_str(), ra, rb, hist.c_str(), desc.c_str());
        if (ra != 0) { if (!reopen()) return false; continue; }
        if (!twins_equal(nm.c_str())) return false;
        lap_residue = true;   // cleared below once enough audio has been read
        int64_t done = 0; int need = 2 * (1 << 12);
        for (int round = 0; round < 12 && done < need; round++) { float **pa, **pb; int ba = -1, bb = -1; long na = ov_read_float(&A.vf, &pa, 4096, &ba), nb = ov_read_float(&B.vf, &pb, 4096, &bb);
          if (na != nb || (na > 0 && ba != bb)) return r.fail("after %s on both handles: %ld samples of link %d vs %ld of link %d [hist %s] [%s]", nm.c_str(), na, ba, nb, bb, hist.c_str(), desc.c_str());
          if (na <= 0) break;
          for (int q = 0; q < c.links[ba].channels; q++) for (long k = 0; k < na; k++) if (memcmp(&pa[q][k], &pb[q][k], 4) && !(pa[q][k] != pa[q][k] && pb[q][k] != pb[q][k]))
            return r.fail("the result of %s depends on whether EARLIER seeks on the handle were lapped or plain: sample %lld channel %d is %.9g vs %.9g [hist %s] [%s]", nm.c_str(), (long long)(done + k), q, pa[q][k], pb[q][k], hist.c_str(), desc.c_str());
          done += na; }
        if (done >= 2 * n_old + 8192 / 2 || done >= 4096) lap_residue = false;
        continue;
      }
      if (rb != 0) { if (ra == 0) return r.fail("%s succeeded where the plain seek fails with %d [hist %s] [%s]", nm.c_str(), rb, hist.c_str(), desc.c_str()); if (!reopen()) return false; continue; }
      int64_t TB = ov_pcm_tell(&B.vf);
      if (ra == OV_EOF) {
        bool nothing_follows = TB >= g.total; bool no_state_at_end = rs_old < INITSET && pos_old >= g.total;
        if (!nothing_follows && !no_state_at_end) return r.fail("%s returned OV_EOF although audio follows the target (plain seek lands at %lld of %lld) and the handle had decode state %d at %lld [hist %s] [%s]", nm.c_str(), (long long)TB, (long long)g.total, rs_old, (long long)pos_old, hist.c_str(), desc.c_str());
        r.label(nothing_follows ? "lapped seek to the end: OV_EOF" : "no decode state at end of stream: OV_EOF"); if (!reopen()) return false; continue;
      }
      if (ra != 0) return r.fail("%s returned %d where the plain seek succeeds [hist %s] [%s]", nm.c_str(), ra, hist.c_str(), desc.c_str());
      if (ov_pcm_tell(&A.vf) != TB) return r.fail("%s lands at %lld, the plain seek at %lld [hist %s] [%s]", nm.c_str(), (long long)ov_pcm_tell(&A.vf), (long long)TB, hist.c_str(), desc.c_str());
      // old audio is predictable only while the old position lies inside the link the handle was decoding
      int l_pred = l_old; if (l_old >= 0 && !(pos_old >= g.start[l_old] && pos_old <= g.start[l_old] + g.len[l_old])) l_pred = -1;
      if (!compare_after(nm.c_str(), l_pred, pos_old, ch_old, n_old)) return false;
    }
    if (nontriv) r.nontriv(fnv1a(desc.data(), desc.size()) ^ fnv1a(hist.data(), hist.size()));
    if (r.want_sample()) r.sample(desc + " ops: " + hist);
    return true;
  }
};

bool prop_run(Tape &t, Report &r) { Run x(t, r); return x.run(); }
