// C09: opening a chained file accounts for every link and every sample.
#include "../vfmodel.h"
const char *prop_id() { return "C09"; }

bool prop_run(Tape &t, Report &r) {
  ChainOpts o; o.maxlinks = t.chance(1, 10) ? 16 : 5; if (o.maxlinks == 16) o.maxN = 6000; o.gp_offset_pct = 12; o.vgen_pct = g_tape_gen >= 3 ? 25 : 0;
  Chain c; GT g; std::vector<LinkMeta> meta; std::string desc;
  if (!gen_chain(t, r, o, c, g, meta, desc)) return false;
  size_t k = c.links.size();
  desc += sfmt("bytes=%zu pages=%zu", c.bytes.size(), c.pages.size());
  r.label(sfmt("links=%zu", k > 5 ? 6 : k));
  bool has_zero = false, has_single_page = false;
  for (size_t i = 0; i < k; i++) { if (g.len[i] == 0) has_zero = true; if (audio_pages(c, (int)i) == 1) has_single_page = true; }
  if (has_zero) r.label("has zero-sample link"); if (has_single_page) r.label("has single-audio-page link");
  if (k >= 2 && audio_pages(c, 0) == 1) r.label("first link single audio page, chained");

  MemSrc ms; ms.data = &c.bytes; ms.read_mode = t.below(3) == 1 ? 2 : 0; ms.sched = Bulk(t.raw() | 1); ms.budget = vf_budget(c);
  OggVorbis_File vf; ms.mark();
  int orr = ov_open_callbacks(&ms, &vf, NULL, 0, ms_callbacks(true));
  if (orr != 0) return r.fail("ov_open_callbacks=%d on intact chained file [%s]", orr, desc.c_str());
  struct Guard { OggVorbis_File *v; ~Guard() { ov_clear(v); } } guard{&vf};
  if (ov_streams(&vf) != (long)k) return r.fail("ov_streams=%ld, file has %zu links [%s]", ov_streams(&vf), k, desc.c_str());
  if (!ov_seekable(&vf)) return r.fail("ov_seekable=0 [%s]", desc.c_str());
  // the link table must read the same at any moment of the handle's life (right after open, inside every link, at the end)
  auto check_table = [&](const char *when) -> bool {
    int64_t sum = 0, rawsum = 0; double tsum = 0;
    for (size_t i = 0; i < k; i++) {
      vorbis_info *vi = ov_info(&vf, (int)i); vorbis_comment *vc = ov_comment(&vf, (int)i);
      if (!vi || !vc) return r.fail("ov_info/ov_comment(%zu) NULL (%s) [%s]", i, when, desc.c_str());
      if (vi->channels != c.links[i].channels || vi->rate != c.links[i].rate) return r.fail("link %zu: info %d ch %ld Hz, stream has %d ch %ld Hz (%s) [%s]", i, vi->channels, vi->rate, c.links[i].channels, c.links[i].rate, when, desc.c_str());
      if ((size_t)vc->comments != meta[i].comments.size()) return r.fail("link %zu: %d comments, wrote %zu (%s) [%s]", i, vc->comments, meta[i].comments.size(), when, desc.c_str());
      for (int j = 0; j < vc->comments; j++) if (meta[i].comments[j] != std::string(vc->user_comments[j], vc->comment_lengths[j])) return r.fail("link %zu comment %d differs (%s) [%s]", i, j, when, desc.c_str());
      if (ov_serialnumber(&vf, (int)i) != (long)c.links[i].serial) return r.fail("link %zu: serial %ld, stream %d (%s) [%s]", i, ov_serialnumber(&vf, (int)i), c.links[i].serial, when, desc.c_str());
      int64_t pt = ov_pcm_total(&vf, (int)i);
      if (pt != g.len[i]) return r.fail("ov_pcm_total(%zu)=%lld, link has %lld samples (%s) [%s]", i, (long long)pt, (long long)g.len[i], when, desc.c_str());
      double tt = ov_time_total(&vf, (int)i), want = (double)g.len[i] / (double)c.links[i].rate;
      if (tt != want) return r.fail("ov_time_total(%zu)=%.17g want %.17g (%s) [%s]", i, tt, want, when, desc.c_str());
      // ov_raw_total is not part of the property (the library counts the last link only up to the start of its final page);
      // only its internal consistency is checked: each link's value lies within the link's byte range and the whole is the sum.
      int64_t rt = ov_raw_total(&vf, (int)i);
      if (rt < 0 || rt > c.link_end[i] - c.link_start[i]) return r.fail("ov_raw_total(%zu)=%lld outside [0,%lld] (%s) [%s]", i, (long long)rt, (long long)(c.link_end[i] - c.link_start[i]), when, desc.c_str());
      rawsum += rt;
      sum += pt; tsum += tt;
    }
    if (ov_pcm_total(&vf, -1) != sum || sum != g.total) return r.fail("ov_pcm_total(-1)=%lld, sum of links %lld (%s) [%s]", (long long)ov_pcm_total(&vf, -1), (long long)g.total, when, desc.c_str());
    if (ov_raw_total(&vf, -1) != rawsum) return r.fail("ov_raw_total(-1)=%lld, sum over links %lld (%s) [%s]", (long long)ov_raw_total(&vf, -1), (long long)rawsum, when, desc.c_str());
    if (fabs(ov_time_total(&vf, -1) - tsum) > 1e-9 * (1 + tsum)) return r.fail("ov_time_total(-1)=%.17g, sum %.17g (%s) [%s]", ov_time_total(&vf, -1), tsum, when, desc.c_str());
    if (ov_pcm_total(&vf, (int)k) != OV_EINVAL || ov_info(&vf, (int)k) != NULL) return r.fail("queries for link index k are not refused (%s) [%s]", when, desc.c_str());
    return true;
  };
  if (!check_table("after open")) return false;
  int64_t tell0 = ov_pcm_tell(&vf);
  if (tell0 != 0) return r.fail("ov_pcm_tell right after open = %lld [%s]", (long long)tell0, desc.c_str());
  // read loop from the start: link 0,1,...,k-1 in order, each identical to its standalone decode
  int64_t pos = 0; int lastbs = -1; int reqmode = t.below(3); Bulk rq(t.raw() | 1);
  for (long it = 0;; it++) {
    float **pcm; int bs = -7; int req = reqmode == 0 ? 4096 : reqmode == 1 ? 1 + (int)rq.below(3000) : 1 + (int)rq.below(64);
    ms.mark();
    long n = ov_read_float(&vf, &pcm, req, &bs);
    if (n == 0) break;
    if (n < 0) return r.fail("ov_read_float returned %ld at position %lld on an intact file [%s]", n, (long long)pos, desc.c_str());
    if (n > req) return r.fail("ov_read_float returned %ld > requested %d [%s]", n, req, desc.c_str());
    if (bs < lastbs) return r.fail("*bitstream went back from %d to %d [%s]", lastbs, bs, desc.c_str());
    if (bs != lastbs && g_tape_gen >= 3) { if (!check_table("while reading, just inside a new link")) return false; r.label("link table re-read inside a later link"); }
    lastbs = bs;
    vorbis_info *vi = ov_info(&vf, -1); std::string why;
    if (!gt_compare(g, pos, pcm, n, bs, vi ? vi->channels : -1, why)) return r.fail("%s [%s]", why.c_str(), desc.c_str());
    pos += n;
    int64_t tl = ov_pcm_tell(&vf);
    if (tl != pos) return r.fail("ov_pcm_tell=%lld after reading %lld samples from the start [%s]", (long long)tl, (long long)pos, desc.c_str());
  }
  if (g_tape_gen >= 3 && !check_table("at end of file")) return false;
  if (pos != g.total) return r.fail("read loop delivered %lld samples, links sum to %lld [%s]", (long long)pos, (long long)g.total, desc.c_str());
  if (k >= 2) r.nontriv(fnv1a(desc.data(), desc.size()));
  if (r.want_sample()) r.sample(desc);
  return true;
}
