// C05: encoder output is a valid stream that the decoder consumes bit-for-bit.
#include "../vgen.h"
#include <set>
const char *prop_id() { return "C05"; }

static bool parse_comment_hdr(const std::vector<uint8_t> &p, std::string &why) {
  size_t o = 0; auto u32 = [&](uint32_t &v) { if (o + 4 > p.size()) return false; v = p[o] | (p[o + 1] << 8) | (p[o + 2] << 16) | ((uint32_t)p[o + 3] << 24); o += 4; return true; };
  if (p.size() < 7 || p[0] != 3 || memcmp(&p[1], "vorbis", 6)) { why = "not a comment header"; return false; } o = 7;
  uint32_t vl; if (!u32(vl) || o + vl > p.size()) { why = "vendor length"; return false; } o += vl; uint32_t n; if (!u32(n)) { why = "comment count"; return false; }
  for (uint32_t i = 0; i < n; i++) { uint32_t l; if (!u32(l) || o + l > p.size()) { why = "comment length"; return false; } o += l; }
  if (o + 1 != p.size() || !(p[o] & 1)) { why = "framing bit / trailing bytes"; return false; } return true;
}

bool prop_run(Tape &t, Report &r) {
  EncCfg cfg = gen_enccfg(t, true, 6);
  if (t.chance(1, 6)) { cfg.channels = 6; cfg.rate = t.chance(1, 2) ? 44100 : 48000; cfg.mode = 0; cfg.quality = (float)(t.range(-1, 10) / 10.0); }   // the two-submap 5.1 templates
  Signal sig = Signal::gen(t);
  { int hk = t.weighted({5, 1, 1, 1, 1, 1, 1}); if (hk == 1) sig.kind = 0; if (hk == 2) { sig.kind = 4; sig.amp = 1.0; } if (hk == 3) { sig.kind = 2; sig.amp = 1000.0; } if (hk == 4) sig.kind = 1; if (hk == 5) sig.kind = 6; if (hk == 6) sig.kind = 7; }
  // per-channel activity pattern: some channels digitally silent for whole stretches while others play
  uint32_t silent_mask = t.chance(1, 3) ? t.below(1u << std::min(cfg.channels, 8)) : 0; int silent_from = (int)t.below(3), silent_mod = 1 + (int)t.below(3);
  Encoder e; int sr = e.setup(cfg); if (sr) { r.label("setup_refused"); return true; }
  LStream s; s.serial = 1; std::vector<std::string> comments; int nc = t.below(3); for (int i = 0; i < nc; i++) comments.push_back(sfmt("TAG%d=%u", i, t.below(100)));
  if (e.start(s, &comments) != 0) return r.fail("encoder start failed after a successful set-up: %s [%s]", e.err.c_str(), cfg.desc().c_str());
  int64_t budget = 120000000 / ((int64_t)cfg.channels * s.bs1 * s.bs1 / 2 + 1); int64_t maxN = std::max<int64_t>(3 * s.bs1, std::min<int64_t>(60000, budget * (s.bs1 / 2)));
  int64_t N = (int64_t)s.bs1 * 2 + (int64_t)t.below((uint32_t)std::max<int64_t>(1, maxN - 2 * s.bs1)); if (t.chance(1, 10)) N = t.below(2000);
  // managed streams: long, expensive-to-code input so that the reservoirs fill and the limiter has to act (bit accounting only)
  bool longrun = cfg.mode != 0 && cfg.channels <= 2 && t.chance(1, 2);
  if (longrun) { N = 100000 + (int64_t)t.below(250000); sig.kind = t.chance(3, 4) ? 4 : 5; sig.amp = 0.9; sig.period = 400; r.label("long managed run"); }
  std::string cd = cfg.desc() + " " + sig.desc() + sfmt(" N=%lld bs=%d/%d silent=%x/%d/%d", (long long)N, s.bs0, s.bs1, silent_mask, silent_from, silent_mod);
  { int64_t done = 0; int seg = 0; std::string err;
    while (done < N) { int n = (int)std::min<int64_t>(N - done, 1 + t.below(6000)); float **b = vorbis_analysis_buffer(&e.vd, n);
      for (int c = 0; c < cfg.channels; c++) { bool mute = c < 8 && (silent_mask >> c & 1) && ((seg + silent_from) % (silent_mod + 1) != 0); if (mute) memset(b[c], 0, sizeof(float) * n); else sig.fill(c, done, n, b[c], N); }
      if (vorbis_analysis_wrote(&e.vd, n)) return r.fail("vorbis_analysis_wrote failed [%s]", cd.c_str()); done += n; seg++;
      if (e.drain(s) < 0) return r.fail("encode failed: %s [%s]", e.err.c_str(), cd.c_str()); }
    vorbis_analysis_wrote(&e.vd, 0); if (e.drain(s) < 0) return r.fail("encode failed at end of input: %s [%s]", e.err.c_str(), cd.c_str()); }
  bool managed = cfg.mode != 0 && !(cfg.mode == 2 && (cfg.ctl_rm2_null || !cfg.managed_base));
  long hard_max = e.vi.bitrate_upper; bool has_hard_max = managed && hard_max > 0;
  // ---- (1) headers: accepted by libvorbis and by the strict specification-level parser, and they say what the encoder's info says
  vs::Setup sp; std::string e1 = vs::parse_id(s.hdr[0].data, sp); if (!e1.empty()) return r.fail("identification header is not valid Vorbis I: %s [%s]", e1.c_str(), cd.c_str());
  std::string e2; if (!parse_comment_hdr(s.hdr[1].data, e2)) return r.fail("comment header is not valid Vorbis I: %s [%s]", e2.c_str(), cd.c_str());
  std::string e3 = vs::parse_setup(s.hdr[2].data, sp); if (!e3.empty()) return r.fail("setup header is not valid Vorbis I: %s [%s]", e3.c_str(), cd.c_str());
  if (sp.channels != e.vi.channels || (long)sp.rate != e.vi.rate || sp.bs(0) != s.bs0 || sp.bs(1) != s.bs1 || sp.br_upper != e.vi.bitrate_upper || sp.br_nominal != e.vi.bitrate_nominal || sp.br_lower != e.vi.bitrate_lower)
    return r.fail("identification header (ch %d rate %u bs %d/%d br %d/%d/%d) disagrees with the encoder's vorbis_info (ch %d rate %ld bs %d/%d br %ld/%ld/%ld) [%s]", sp.channels, sp.rate, sp.bs(0), sp.bs(1), sp.br_upper, sp.br_nominal, sp.br_lower, e.vi.channels, e.vi.rate, s.bs0, s.bs1, e.vi.bitrate_upper, e.vi.bitrate_nominal, e.vi.bitrate_lower, cd.c_str());
  vorbis_info vi; vorbis_comment vc; vorbis_dsp_state vd; vorbis_block vb; vorbis_info_init(&vi); vorbis_comment_init(&vc);
  struct G { vorbis_info *i; vorbis_comment *c; vorbis_dsp_state *d = nullptr; vorbis_block *b = nullptr; ~G() { if (b) vorbis_block_clear(b); if (d) vorbis_dsp_clear(d); vorbis_comment_clear(c); vorbis_info_clear(i); } } g{&vi, &vc};
  for (int i = 0; i < 3; i++) { ogg_packet op; s.hdr[i].to_ogg(op); int hr = vorbis_synthesis_headerin(&vi, &vc, &op); if (hr) return r.fail("the decoder refuses the encoder's header %d (%d) [%s]", i, hr, cd.c_str()); }
  if (vi.channels != e.vi.channels || vi.rate != e.vi.rate || vi.bitrate_upper != e.vi.bitrate_upper || vi.bitrate_nominal != e.vi.bitrate_nominal || vi.bitrate_lower != e.vi.bitrate_lower || vorbis_info_blocksize(&vi, 0) != s.bs0 || vorbis_info_blocksize(&vi, 1) != s.bs1)
    return r.fail("decoded headers disagree with the encoder's vorbis_info [%s]", cd.c_str());
  if ((size_t)vc.comments != comments.size()) return r.fail("comment count differs after the header round trip [%s]", cd.c_str());
  if (vorbis_synthesis_init(&vd, &vi)) return r.fail("vorbis_synthesis_init refuses the encoder's headers [%s]", cd.c_str()); g.d = &vd; vorbis_block_init(&vd, &vb); g.b = &vb;
  // ---- (2)..(5) every audio packet
  vs::Synth syn(sp); vs::Lapper lap(sp.channels); std::vector<vs::Vec> refout(sp.channels);
  double ops = 0; bool compare_pcm = !longrun; if (longrun) syn.walk_only = true; int longs = 0, shorts = 0; std::vector<int> Wk; std::vector<vs::Block> blks; long padded = 0, truncated = 0; double worst = 0; std::set<size_t> sizes_seen;
  size_t np = s.audio.size();
  for (size_t k = 0; k < np; k++) {
    const Pkt &p = s.audio[k]; ogg_packet op; p.to_ogg(op);
    vs::SymIO io; io.r = vs::BitR(p.data.data(), p.data.size()); vs::Block blk;
    ops += (double)sp.channels * s.bs1 * s.bs1 / 2; if (ops > 1.5e8) { compare_pcm = false; syn.walk_only = true; }
    if (!syn.packet(io, nullptr, blk)) return r.fail("audio packet %zu is not a valid Vorbis I audio packet: %s [%s]", k, blk.note.c_str(), cd.c_str());
    if (blk.W) longs++; else shorts++;
    int sr2 = vorbis_synthesis(&vb, &op); if (sr2) return r.fail("the decoder rejects the encoder's audio packet %zu (%d) [%s]", k, sr2, cd.c_str());
    long lbits = oggpack_bits(&vb.opb), avail = (long)p.data.size() * 8;
    if (!managed) {
      if (blk.eop_in_floor || blk.eop_in_residue) return r.fail("audio packet %zu (unmanaged) ends before the specification-level decode has all its bits (%zu bytes) [%s]", k, p.data.size(), cd.c_str());
      if ((long)blk.bits_used > avail || avail - (long)blk.bits_used >= 8) return r.fail("audio packet %zu (unmanaged): %zu bytes but the specification-level decode consumes %zu bits (must end within the last byte) [%s]", k, p.data.size(), blk.bits_used, cd.c_str());
      if (lbits > avail || avail - lbits >= 8) return r.fail("audio packet %zu (unmanaged): %zu bytes but libvorbis consumes %ld bits (must end within the last byte) [%s]", k, p.data.size(), lbits, cd.c_str());
    } else {
      bool ran_out = blk.eop_in_floor || blk.eop_in_residue;
      if (ran_out && !has_hard_max) return r.fail("audio packet %zu (managed, no hard maximum) is truncated: the decode runs out of bits after %zu bytes [%s]", k, p.data.size(), cd.c_str());
      if (ran_out) truncated++; else if (avail - (long)blk.bits_used >= 8) { padded++; for (size_t b = (blk.bits_used + 7) / 8; b < p.data.size(); b++) if (p.data[b] != 0) return r.fail("audio packet %zu (managed): the bytes after the payload are not zero padding [%s]", k, cd.c_str()); }
    }
    Wk.push_back(blk.W); blks.push_back(blk); sizes_seen.insert(p.data.size());
    int br = vorbis_synthesis_blockin(&vd, &vb); if (br) return r.fail("blockin=%d [%s]", br, cd.c_str());
    float **pcm; int got = vorbis_synthesis_pcmout(&vd, &pcm);
    if (compare_pcm && !blk.eop_in_floor && !blk.eop_in_residue) {
      size_t before = refout[0].v.size(); int produced = lap.push(blk, refout);
      int cmpn = std::min(got, produced);   // the final packet is end-trimmed by the decoder; compare what both have
      if (got > produced) return r.fail("packet %zu: the decoder returns %d samples, the specification %d [%s]", k, got, produced, cd.c_str());
      double peak = 1e-30; for (int c = 0; c < sp.channels; c++) for (int i = 0; i < cmpn; i++) peak = std::max(peak, fabs(refout[c].v[before + i]));
      if (!syn.illcond) for (int c = 0; c < sp.channels; c++) for (int i = 0; i < cmpn; i++) { double ref = refout[c].v[before + i], tol = 4 * refout[c].e[before + i] + 1e-10 * peak + 1e-30, dd = fabs((double)pcm[c][i] - ref);
        if (!(dd <= tol)) return r.fail("packet %zu channel %d sample %d: decoder %.9g, specification %.9g (bound %.3g) [%s]", k, c, i, pcm[c][i], ref, tol, cd.c_str()); if (tol > 0) worst = std::max(worst, dd / tol); }
    } else if (compare_pcm) { lap.restart(); compare_pcm = false; }
    vorbis_synthesis_read(&vd, got);
  }
  // window flags of long blocks must agree with the block sizes of the neighbouring packets
  for (size_t k = 0; k < np; k++) if (blks[k].W) {
    if (k > 0 && (int)blks[k].prevlong != Wk[k - 1]) return r.fail("audio packet %zu: previous-window flag %d but packet %zu is a %s block [%s]", k, (int)blks[k].prevlong, k - 1, Wk[k - 1] ? "long" : "short", cd.c_str());
    if (k + 1 < np && (int)blks[k].nextlong != Wk[k + 1]) return r.fail("audio packet %zu: next-window flag %d but packet %zu is a %s block [%s]", k, (int)blks[k].nextlong, k + 1, Wk[k + 1] ? "long" : "short", cd.c_str());
  }
  r.metric_max("worst |difference| / tolerance (encoder streams through the reference decoder)", worst);
  r.label(managed ? "managed" : "unmanaged"); if (has_hard_max) r.label("hard maximum configured"); if (padded) r.label("managed: padded packets"); if (truncated) r.label("managed with hard maximum: truncated packets");
  if (cfg.channels == 6) r.label("5.1 (two submaps)"); if (silent_mask) r.label("channels silent for stretches"); if (compare_pcm) r.label("PCM compared with the reference decoder");
  bool nontriv = (np >= 4 && longs && shorts) || (managed && (padded || truncated || sizes_seen.size() > 3));
  if (nontriv) r.nontriv(fnv1a(cd.data(), cd.size())); if (r.want_sample()) r.sample(cd + sfmt(" packets=%zu long=%d short=%d", np, longs, shorts));
  return true;
}
