// C17: integer PCM output is the rounded, clipped, interleaved float output (twin handles with identical history).
#include "../vfmodel.h"
const char *prop_id() { return "C17"; }

struct Twin {
  MemSrc ms; OggVorbis_File vf; bool open = false;
  ~Twin() { if (open) ov_clear(&vf); }
  int start(const Chain &c) { ms = MemSrc(); ms.data = &c.bytes; int r = ov_open_callbacks(&ms, &vf, NULL, 0, ms_callbacks(true)); open = r == 0; return r; }
};

// application filter for ov_read_filter: a gain (not idempotent, so a sample filtered twice or not at all shows in the words)
struct Gain { float g; long calls = 0, samples = 0; long last_channels = -1; };
static void gain_filter(float **pcm, long channels, long samples, void *param) {
  Gain *gp = (Gain *)param; gp->calls++; gp->samples += samples; gp->last_channels = channels;
  for (long c = 0; c < channels; c++) for (long i = 0; i < samples; i++) pcm[c][i] *= gp->g;
}

bool prop_run(Tape &t, Report &r) {
  ChainOpts o; o.maxlinks = 3; o.maxN = 20000; o.comments = false; o.vgen_pct = 50; o.vgen_big = true; o.maxch = 8; if (t.chance(1, 12)) o.vgen_maxch = 255;
  bool want_hs = t.chance(1, 6); o.even_interior = want_hs;   // odd-length interior links make half-rate positions ambiguous (DESIGN 3.21): not generated here
  Chain c; GT g; std::vector<LinkMeta> meta; std::string desc;
  if (!gen_chain(t, r, o, c, g, meta, desc)) return false;
  Twin A, B; if (A.start(c) || B.start(c)) return r.fail("ov_open_callbacks failed on an intact file [%s]", desc.c_str());
  bool hs = false;
  if (want_hs) { bool ok64 = true; for (auto &l : c.links) if (l.bs0 <= 64) ok64 = false; if (ok64) { if (ov_halfrate(&A.vf, 1) || ov_halfrate(&B.vf, 1)) return r.fail("ov_halfrate(1) refused [%s]", desc.c_str()); hs = true; r.label("half rate"); } }
  int nops = 2 + (int)t.below(30); std::string hist; bool nontriv = false; long any_clip = 0, any_unclipped = 0;
  for (int k = 0; k < nops; k++) {
    int op = t.weighted({8, 2, 1, 1});
    if (op == 1) {   // the same seek on both handles
      int64_t p = (int64_t)t.spread((uint32_t)std::min<int64_t>(g.total + 1, 0x7fffffff));
      int ra = ov_pcm_seek(&A.vf, p), rb = ov_pcm_seek(&B.vf, p); hist += sfmt("seek(%lld) ", (long long)p);
      if (ra != rb || ov_pcm_tell(&A.vf) != ov_pcm_tell(&B.vf)) return r.harness("twin handles diverge on ov_pcm_seek(%lld): %d/%d tell %lld/%lld [%s]", (long long)p, ra, rb, (long long)ov_pcm_tell(&A.vf), (long long)ov_pcm_tell(&B.vf), desc.c_str());
      continue;
    }
    int word = 1 + (int)t.below(2), sgned = (int)t.below(2), be = (int)t.below(2);
    int64_t pos = ov_pcm_tell(&A.vf); if (pos != ov_pcm_tell(&B.vf)) return r.harness("twin handles at different positions %lld / %lld [hist %s] [%s]", (long long)pos, (long long)ov_pcm_tell(&B.vf), hist.c_str(), desc.c_str());
    std::vector<unsigned char> buf(70000, 0xA5);
    if (op == 2) {   // non-positive word size: error, nothing written, position kept
      int bad = t.below(2) ? 0 : -1 - (int)t.below(3); int bs = -9; long n = ov_read(&A.vf, (char *)buf.data(), 4096, be, bad, sgned, &bs); hist += sfmt("read(word=%d)=%ld ", bad, n);
      if (n != OV_EINVAL) return r.fail("ov_read with word size %d returned %ld (expected OV_EINVAL) [hist %s] [%s]", bad, n, hist.c_str(), desc.c_str());
      for (unsigned char ch : buf) if (ch != 0xA5) return r.fail("ov_read with word size %d wrote into the buffer [hist %s] [%s]", bad, hist.c_str(), desc.c_str());
      if (ov_pcm_tell(&A.vf) != pos) return r.fail("refused ov_read moved the position [hist %s] [%s]", hist.c_str(), desc.c_str());
      r.label("non-positive word size"); continue;
    }
    // which link will the next samples come from?  (from the position; at EOF both handles must report 0)
    int len;
    { int cls = t.weighted({6, 3, 2, 1}); len = cls == 0 ? 1 + (int)t.below(9000) : cls == 1 ? (int)t.below(40) : cls == 2 ? 1 + (int)t.below(65000) : 0; }
    if (op == 3) len = (int)t.below(6);
    static const float gains[] = {0.5f, -1.f, 2.f, 0.25f, 1.5f, 0.f}; Gain gn{1.f}; bool filt = g_tape_gen >= 3 && op == 0 && t.chance(1, 3); if (filt) gn.g = gains[t.below(6)];
    int bsA = -9; long n = filt ? ov_read_filter(&A.vf, (char *)buf.data(), len, be, word, sgned, &bsA, gain_filter, &gn) : ov_read(&A.vf, (char *)buf.data(), len, be, word, sgned, &bsA);
    hist += sfmt("read%s(%d,w%d,s%d,be%d)=%ld ", filt ? sfmt("_filter[x%g]", (double)gn.g).c_str() : "", len, word, sgned, be, n);
    if (filt && n <= 0 && gn.samples) return r.fail("ov_read_filter returned %ld but handed %ld samples to the filter [hist %s] [%s]", n, gn.samples, hist.c_str(), desc.c_str());
    for (size_t i = (size_t)std::max<long>(n, 0); i < buf.size(); i++) if (buf[i] != 0xA5) return r.fail("ov_read returned %ld but byte %zu of the buffer (length passed %d) was modified [hist %s] [%s]", n, i, len, hist.c_str(), desc.c_str());
    if (n == 0) {   // end of file: the float twin must agree
      float **pcm; int bsB; long m = ov_read_float(&B.vf, &pcm, 64, &bsB);
      if (m != 0) return r.fail("ov_read reports end of file at %lld but ov_read_float on the twin handle returns %ld [hist %s] [%s]", (long long)pos, m, hist.c_str(), desc.c_str());
      r.label("read at end of file"); continue;
    }
    int64_t after = ov_pcm_tell(&A.vf);
    if (n == OV_EINVAL) {
      // legitimate only when the buffer cannot hold one frame of the link being decoded; find that link through the twin
      float **pcm; int bsB = -9; long m = ov_read_float(&B.vf, &pcm, 1, &bsB);
      if (m <= 0) return r.fail("ov_read returned OV_EINVAL at %lld but the twin's ov_read_float returns %ld [hist %s] [%s]", (long long)pos, m, hist.c_str(), desc.c_str());
      int ch = c.links[bsB].channels;
      if (len >= word * ch) return r.fail("ov_read refused a %d-byte buffer although one frame is %d bytes [hist %s] [%s]", len, word * ch, hist.c_str(), desc.c_str());
      if (after != pos) return r.fail("refused ov_read (buffer smaller than a frame) moved the position from %lld to %lld [hist %s] [%s]", (long long)pos, (long long)after, hist.c_str(), desc.c_str());
      // bring A level with B again: read the same single frame as floats on A
      int bsA2; long m2 = ov_read_float(&A.vf, &pcm, 1, &bsA2); if (m2 != m) return r.harness("twin resync failed [%s]", desc.c_str());
      r.label("buffer smaller than one frame"); continue;
    }
    if (n < 0) return r.fail("ov_read returned %ld on an intact file at %lld [hist %s] [%s]", n, (long long)pos, hist.c_str(), desc.c_str());
    if (n > len) return r.fail("ov_read returned %ld bytes for a %d-byte buffer [hist %s] [%s]", n, len, hist.c_str(), desc.c_str());
    if (bsA < 0 || (size_t)bsA >= c.links.size()) return r.fail("ov_read *bitstream=%d [hist %s] [%s]", bsA, hist.c_str(), desc.c_str());
    int ch = c.links[bsA].channels; int frame = word * ch;
    if (n % frame) return r.fail("ov_read returned %ld bytes, not a whole number of %d-byte frames (link %d, %d channels) [hist %s] [%s]", n, frame, bsA, ch, hist.c_str(), desc.c_str());
    long frames = n / frame;
    if (after - pos != (frames << (hs ? 1 : 0))) return r.fail("ov_read returned %ld frames but the position advanced from %lld to %lld [hist %s] [%s]", frames, (long long)pos, (long long)after, hist.c_str(), desc.c_str());
    float **pcm; int bsB = -9; long m = ov_read_float(&B.vf, &pcm, (int)frames, &bsB);
    if (m != frames || bsB != bsA) return r.fail("ov_read delivered %ld frames of link %d where ov_read_float on the twin handle delivers %ld of link %d [hist %s] [%s]", frames, bsA, m, bsB, hist.c_str(), desc.c_str());
    long clipped = 0, unclipped = 0;
    for (long i = 0; i < frames; i++) for (int q = 0; q < ch; q++) {
      float x = pcm[q][i]; if (filt) x *= gn.g; if (std::isnan(x)) continue;
      float scaled = word == 2 ? x * 32768.f : x * 128.f; double lo = word == 2 ? -32768 : -128, hi = word == 2 ? 32767 : 127;
      double f = floor((double)scaled), cands[2] = {f, f + 1}; int ncand = 2;
      double frac = (double)scaled - f; if (frac < 0.5) ncand = 1; else if (frac > 0.5) { cands[0] = f + 1; ncand = 1; }   // exactly .5: either neighbour
      if (!std::isfinite((double)scaled)) { cands[0] = scaled > 0 ? hi : lo; ncand = 1; }
      const unsigned char *b = &buf[(size_t)(i * ch + q) * word]; int got;
      if (word == 1) got = *b; else got = be ? (b[0] << 8 | b[1]) : (b[1] << 8 | b[0]);
      bool match = false; int want0 = 0;
      for (int u = 0; u < ncand; u++) { double v = cands[u]; if (v > hi) v = hi; if (v < lo) v = lo; int w = (int)v; if (!sgned) w += word == 2 ? 32768 : 128; else if (w < 0) w += word == 2 ? 65536 : 256; if (u == 0) want0 = w; if (w == got) match = true; }
      if (!match) return r.fail("ov_read(word=%d signed=%d bigendian=%d) frame %ld channel %d: got 0x%0*x, the float sample %.9g converts to 0x%0*x [hist %s] [%s]", word, sgned, be, i, q, word * 2, got, x, word * 2, want0, hist.c_str(), desc.c_str());
      if ((double)scaled > hi + 0.5 || (double)scaled < lo - 0.5) clipped++; else unclipped++;
    }
    if (filt) { r.label("ov_read_filter with a gain filter"); if (gn.last_channels != ch) return r.fail("the filter was called with %ld channels in a %d-channel link [hist %s] [%s]", gn.last_channels, ch, hist.c_str(), desc.c_str()); if (frames < 40 && len < 64) r.label("filtered read shorter than the pending block"); }
    any_clip += clipped; any_unclipped += unclipped;
    if ((clipped && unclipped) || ch > 2) nontriv = true;
    if (clipped && unclipped) r.label("read with clipped and unclipped samples");
    r.label(sfmt("format word=%d signed=%d bigendian=%d", word, sgned, be));
    if (ch > 2) r.label("more than 2 channels"); if (ch > 8) r.label("more than 8 channels");
  }
  if (nontriv) r.nontriv(fnv1a(desc.data(), desc.size()) ^ fnv1a(hist.data(), hist.size()));
  if (r.want_sample()) r.sample(desc + " ops: " + hist);
  return true;
}
