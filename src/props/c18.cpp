// C18: independent codec instances do not interfere; results are reproducible.
//  (a) every job (encoder, packet decoder, vorbisfile handle; disjoint objects) gives byte-identical output when run alone, when run a
//      second time after the heap has been churned, and when run concurrently with the other jobs on separate threads;
//  (b) the same tapes are run by the driver in differently poisoned builds (stack auto-init pattern/zero, malloc fill bytes) and under
//      ThreadSanitizer; the per-case output hash (Report::out_hash) must agree across builds, and TSan must stay silent;
//  (c) the floating-point environment (MXCSR, x87 control word) is unchanged by every job.
#include "../vfmodel.h"
#include <thread>
#include <atomic>
#include <sched.h>
#include <xmmintrin.h>
const char *prop_id() { return "C18"; }

struct VfOp { int kind; int64_t a; double d; };
struct Job {
  int kind = 0;                       // 0 encode, 1 packet decode, 2 vorbisfile
  EncCfg cfg; Signal sig; int64_t N = 0; std::vector<int> pieces;      // encode
  LStream stream;                     // decode
  Chain chain; std::vector<VfOp> ops; // vorbisfile
  std::vector<int> yields; std::string desc;
  uint64_t result = 0; bool ok = true; std::string err; bool overlapped = false;
};

static std::atomic<int> g_running{0}, g_maxrun{0};
// hash of float samples with every NaN treated alike: which operand's NaN payload/sign an operation propagates is a code-generation
// detail that legitimately differs between builds (synthetic streams do decode to NaN in places)
static uint64_t hash_floats(const float *p, size_t n, uint64_t h) { for (size_t i = 0; i < n; i++) { uint32_t u; memcpy(&u, &p[i], 4); if (p[i] != p[i]) u = 0x7fc00000u; h = fnv1a(&u, 4, h); } return h; }
static inline void maybe_yield(const Job &j, size_t &k) { if (k < j.yields.size()) { for (int i = 0; i < j.yields[k]; i++) sched_yield(); } k++; }
static unsigned fpu_state() { unsigned mx = _mm_getcsr(); unsigned short cw = 0; __asm__ __volatile__("fnstcw %0" : "=m"(cw)); return (mx & ~0x3fu) ^ ((unsigned)cw << 16); }   // exception flags (sticky status bits) are not part of the control state

static uint64_t run_job(Job &j, bool counting) {
  uint64_t h = 1469598103934665603ull; size_t yk = 0; unsigned fpu0 = fpu_state();
  if (counting) { int now = ++g_running; int m = g_maxrun.load(); while (now > m && !g_maxrun.compare_exchange_weak(m, now)) {} if (now > 1) j.overlapped = true; }
  if (j.kind == 0) {
    Encoder e; int sr = e.setup(j.cfg);
    if (sr) { h ^= (uint64_t)(uint32_t)sr; }
    else { LStream s; if (e.start(s)) { j.ok = false; j.err = "encoder start"; }
      else { for (int i = 0; i < 3; i++) h = fnv1a(s.hdr[i].data.data(), s.hdr[i].data.size(), h); int64_t done = 0;
        for (int n : j.pieces) { float **b = vorbis_analysis_buffer(&e.vd, n); for (int c = 0; c < j.cfg.channels; c++) j.sig.fill(c, done, n, b[c], j.N); vorbis_analysis_wrote(&e.vd, n); done += n; maybe_yield(j, yk); if (e.drain(s) < 0) { j.ok = false; j.err = e.err; break; } }
        vorbis_analysis_wrote(&e.vd, 0); e.drain(s);
        for (auto &p : s.audio) { h = fnv1a(p.data.data(), p.data.size(), h); h = fnv1a(&p.granulepos, sizeof p.granulepos, h); } } }
  } else if (j.kind == 1) {
    vorbis_info vi; vorbis_comment vc; vorbis_info_init(&vi); vorbis_comment_init(&vc); bool good = true;
    for (int i = 0; i < 3 && good; i++) { ogg_packet op; j.stream.hdr[i].to_ogg(op); if (vorbis_synthesis_headerin(&vi, &vc, &op)) good = false; }
    if (good) { vorbis_dsp_state vd; vorbis_block vb; if (vorbis_synthesis_init(&vd, &vi) == 0) { vorbis_block_init(&vd, &vb);
        for (auto &p : j.stream.audio) { ogg_packet op; p.to_ogg(op); int sr = vorbis_synthesis(&vb, &op); h ^= (uint64_t)(uint32_t)sr; h *= 1099511628211ull; if (sr == 0) { vorbis_synthesis_blockin(&vd, &vb); float **pcm; int m; while ((m = vorbis_synthesis_pcmout(&vd, &pcm)) > 0) { for (int c = 0; c < vi.channels; c++) h = hash_floats(pcm[c], (size_t)m, h); vorbis_synthesis_read(&vd, m); } } maybe_yield(j, yk); }
        vorbis_block_clear(&vb); vorbis_dsp_clear(&vd); } }
    vorbis_comment_clear(&vc); vorbis_info_clear(&vi);
  } else {
    MemSrc ms; ms.data = &j.chain.bytes; OggVorbis_File vf; int orr = ov_open_callbacks(&ms, &vf, NULL, 0, ms_callbacks(true)); h ^= (uint64_t)(uint32_t)orr;
    if (orr == 0) {
      for (auto &op : j.ops) { long rr = 0;
        switch (op.kind) {
          case 0: { float **pcm; int bs = -1; rr = ov_read_float(&vf, &pcm, (int)op.a, &bs); if (rr > 0) { vorbis_info *vi = ov_info(&vf, -1); for (int c = 0; c < vi->channels; c++) h = hash_floats(pcm[c], (size_t)rr, h); h ^= (uint64_t)bs; } } break;
          case 1: rr = ov_pcm_seek(&vf, op.a); break; case 2: rr = ov_raw_seek(&vf, op.a); break; case 3: rr = ov_time_seek(&vf, op.d); break; case 4: rr = ov_pcm_seek_page(&vf, op.a); break;
          case 5: { char buf[4096]; int bs = -1; rr = ov_read(&vf, buf, (int)std::min<int64_t>(op.a, 4096), 0, 2, 1, &bs); if (rr > 0) h = fnv1a(buf, (size_t)rr, h); } break;
          case 6: rr = ov_pcm_seek_lap(&vf, op.a); break; case 7: rr = ov_halfrate(&vf, (int)(op.a & 1)); break;
        }
        int64_t tl = ov_pcm_tell(&vf); h = fnv1a(&rr, sizeof rr, h); h = fnv1a(&tl, sizeof tl, h); maybe_yield(j, yk);
      }
      ov_clear(&vf);
    }
  }
  if (counting) --g_running;
  if (fpu_state() != fpu0) { j.ok = false; j.err = "the job changed the floating-point control state (MXCSR / x87 control word)"; }
  return h;
}

bool prop_run(Tape &t, Report &r) {
  int nj = 2 + (int)t.below(5); std::vector<Job> jobs((size_t)nj); std::string cd;
  for (int i = 0; i < nj; i++) {
    Job &j = jobs[i]; j.kind = t.weighted({3, 3, 4});
    if (j.kind == 0) { j.cfg = gen_enccfg(t, true, 4); j.sig = Signal::gen(t); j.N = 1000 + t.below(30000); int64_t d = 0; while (d < j.N) { int n = (int)std::min<int64_t>(j.N - d, 1 + t.below(5000)); j.pieces.push_back(n); d += n; } j.desc = "enc " + j.cfg.desc() + sfmt(" N=%lld", (long long)j.N); }
    else if (j.kind == 1) { if (t.chance(1, 2)) { vg::GenOpts go; go.simple = true; go.maxch = 4; go.max_bslog = 10; vg::GenStream gs; vg::gen_stream(t, go, 4 + (int)t.below(30), gs, 3); if (!gs.ok) return r.harness("vgen: %s", gs.err.c_str()); j.stream = gs.ls; }
      else { EncCfg c = gen_link_cfg(t, 4); Signal sg = Signal::gen(t); std::string err; int64_t N = 2000 + t.below(20000); std::vector<int> pc{(int)N}; std::vector<char> da; if (encode_stream(c, sg, N, pc, da, j.stream, err)) { c = EncCfg(); if (encode_stream(c, sg, N, pc, da, j.stream, err)) return r.harness("encode: %s", err.c_str()); }
        if (t.chance(1, 3)) { int ch = j.stream.channels; (void)ch; r.label("decode job on a stream with silent channel stretches"); } }
      j.desc = "dec " + j.stream.desc; }
    else { ChainOpts o; o.maxlinks = 3; o.maxN = 12000; o.comments = false; o.vgen_pct = 40; o.maxch = 4; o.vgen_64_pct = 0; o.vgen_min_bslog = 7; GT g; std::vector<LinkMeta> meta; std::string d2; if (!gen_chain(t, r, o, j.chain, g, meta, d2)) return false;
      int nops = 2 + (int)t.below(14); double dur = 0; for (size_t l = 0; l < j.chain.links.size(); l++) dur += (double)g.len[l] / j.chain.links[l].rate;
      for (int k = 0; k < nops; k++) { VfOp op; op.kind = t.weighted({6, 3, 2, 2, 2, 2, 1, 1}); op.a = op.kind == 0 || op.kind == 5 ? 1 + (int64_t)t.below(4000) : op.kind == 2 ? (int64_t)t.spread((uint32_t)j.chain.bytes.size() + 1) : (int64_t)t.spread((uint32_t)std::min<int64_t>(g.total + 1, 0x7fffffff)); op.d = dur * t.below(1000) / 1000.0; j.ops.push_back(op); }
      j.desc = "vf " + d2 + sfmt("ops=%d", nops); }
    int ny = (int)t.below(4); Bulk yb(t.raw() | 1); for (int k = 0; k < 64; k++) j.yields.push_back(ny ? (int)yb.below((uint32_t)ny * 3) : 0);
    cd += sfmt("[%d] %s; ", i, j.desc.c_str());
  }
  // ---- solitary reference
  std::vector<uint64_t> ref((size_t)nj);
  for (int i = 0; i < nj; i++) { ref[i] = run_job(jobs[i], false); if (getenv("VERIF_VERBOSE")) fprintf(stderr, "job %d %016llx %s\n", i, (unsigned long long)ref[i], jobs[i].desc.substr(0, 200).c_str()); if (!jobs[i].ok) return r.fail("job %d alone: %s [%s]", i, jobs[i].err.c_str(), cd.c_str()); }
  // ---- again after churning the heap: same inputs and call sequence must give the same bytes whatever freed memory contains
  { std::vector<void *> junk; Bulk jb(t.raw() | 1); for (int k = 0; k < 300; k++) { size_t n = 16 + jb.below(70000); void *p = malloc(n); memset(p, (int)(0x11 * (1 + jb.below(14))), n); junk.push_back(p); } for (size_t k = 0; k < junk.size(); k += 2) free(junk[k]);
    for (int i = 0; i < nj; i++) { uint64_t h2 = run_job(jobs[i], false); if (h2 != ref[i]) { for (size_t k = 1; k < junk.size(); k += 2) free(junk[k]); return r.fail("job %d gives different output when repeated after unrelated heap activity (%016llx vs %016llx): it depends on the contents of recycled or uninitialised memory [%s]", i, (unsigned long long)h2, (unsigned long long)ref[i], cd.c_str()); } }
    for (size_t k = 1; k < junk.size(); k += 2) free(junk[k]); }
  // ---- concurrently, on separate threads, released together
  g_running = 0; g_maxrun = 0; std::vector<uint64_t> got((size_t)nj); std::atomic<int> ready{0}; std::atomic<bool> go{false};
  { std::vector<std::thread> th; for (int i = 0; i < nj; i++) th.emplace_back([&, i]() { ready++; while (!go.load()) sched_yield(); got[i] = run_job(jobs[i], true); }); while (ready.load() < nj) sched_yield(); go = true; for (auto &x : th) x.join(); }
  for (int i = 0; i < nj; i++) { if (!jobs[i].ok) return r.fail("job %d (concurrent): %s [%s]", i, jobs[i].err.c_str(), cd.c_str()); if (got[i] != ref[i]) return r.fail("job %d gives different output when other instances run concurrently (%016llx vs %016llx alone) [%s]", i, (unsigned long long)got[i], (unsigned long long)ref[i], cd.c_str()); }
  uint64_t all = 1469598103934665603ull; for (int i = 0; i < nj; i++) all = fnv1a(&ref[i], sizeof ref[i], all); r.out_hash = all;
  int kinds = 0; { bool k0 = false, k1 = false, k2 = false; for (auto &j : jobs) { k0 |= j.kind == 0; k1 |= j.kind == 1; k2 |= j.kind == 2; } kinds = k0 + k1 + k2; }
  r.label(sfmt("jobs=%d", nj)); if (g_maxrun.load() >= 2) r.label("jobs overlapped in time"); if (kinds >= 2) r.label("mixed job kinds");
  if (g_maxrun.load() >= 2 && kinds >= 2) r.nontriv(fnv1a(cd.data(), cd.size())); if (r.want_sample()) r.sample(cd + sfmt("max concurrently running=%d", g_maxrun.load()));
  return true;
}
