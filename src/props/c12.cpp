// C12: I/O failures surface as error codes and leave the handle usable.
// One case = one generated scenario (stream + script of vorbisfile calls); the fault space of the scenario - every callback invocation
// index x every fault kind x {one-shot, persisting} - is enumerated completely.
#include "../vfmodel.h"
const char *prop_id() { return "C12"; }

enum OpKind { OP_READ, OP_PCM_SEEK, OP_PAGE_SEEK, OP_RAW_SEEK, OP_TIME_SEEK, OP_LAP_SEEK, OP_HALFRATE, OP_READ_INT };
struct Op { int kind; int64_t arg; double targ; int lapv = 0; int64_t rawarg = 0; };   // lapv (gen 4): which of the five lapped seeks
struct CallRes { long ret = 0; uint64_t hash = 0; int64_t tell = 0; long cb_first = 0, cb_last = 0; };   // callbacks [cb_first, cb_last) happened inside the call

static uint64_t hash_pcm(float **pcm, int ch, long n) { uint64_t h = 1469598103934665603ull; for (int c = 0; c < ch; c++) h = fnv1a(pcm[c], (size_t)n * sizeof(float), h); return h; }

struct Scenario {
  Chain c; GT g; std::vector<Op> script; std::vector<int64_t> recov; std::string desc;
};

struct RunOut { int open_ret = 0; CallRes open; std::vector<CallRes> calls; long total_cb = 0; bool seekable = false; long closes_before_clear = 0, closes_after = 0; int faulted_call = -2; /* -1 open, >=0 script index, -2 none */
  bool zero_after_failed_open = true; std::string recov_err; bool recovered = false; };

static long do_op(OggVorbis_File *vf, const Op &op, const Chain &c, uint64_t *hash) {
  *hash = 0;
  switch (op.kind) {
    case OP_READ: { float **pcm; int bs = -1; long n = ov_read_float(vf, &pcm, (int)op.arg, &bs); if (n > 0 && bs >= 0 && (size_t)bs < c.links.size()) *hash = hash_pcm(pcm, c.links[bs].channels, n) ^ (uint64_t)bs; return n; }
    case OP_READ_INT: { std::vector<char> buf((size_t)op.arg + 8); int bs = -1; long n = ov_read(vf, buf.data(), (int)op.arg, 0, 2, 1, &bs); if (n > 0) *hash = fnv1a(buf.data(), (size_t)n) ^ (uint64_t)bs; return n; }
    case OP_PCM_SEEK: return ov_pcm_seek(vf, op.arg);
    case OP_PAGE_SEEK: return ov_pcm_seek_page(vf, op.arg);
    case OP_RAW_SEEK: return ov_raw_seek(vf, op.arg);
    case OP_TIME_SEEK: return ov_time_seek(vf, op.targ);
    case OP_LAP_SEEK: return op.lapv == 0 ? ov_pcm_seek_lap(vf, op.arg) : op.lapv == 1 ? ov_pcm_seek_page_lap(vf, op.arg) : op.lapv == 2 ? ov_time_seek_lap(vf, op.targ) : op.lapv == 3 ? ov_time_seek_page_lap(vf, op.targ) : ov_raw_seek_lap(vf, op.rawarg);
    case OP_HALFRATE: return ov_halfrate(vf, (int)op.arg);
  }
  return 0;
}
static const char *opname(int k) { static const char *n[] = {"ov_read_float", "ov_pcm_seek", "ov_pcm_seek_page", "ov_raw_seek", "ov_time_seek", "ov_pcm_seek_lap", "ov_halfrate", "ov_read"}; return n[k]; }

// One execution of the scenario with a fault plan.  stop_after_fault: once the faulted call has returned, the rest of the script is
// skipped, the faults are switched off and the recovery seeks are performed.
static void execute(const Scenario &sc, int fkind, long fat, long flen, bool read1_from, RunOut &out, const RunOut *base) {
  MemSrc ms; ms.data = &sc.c.bytes; ms.fault_kind = fkind; ms.fault_at = fat; ms.fault_len = flen; ms.budget = vf_budget(sc.c); ms.mark();
  if (read1_from) { ms.fault_kind = MemSrc::NONE; ms.budget = 4096 + 40L * (long)sc.c.bytes.size() * ((long)sc.c.links.size() + 1); }   // one callback per byte: the budget scales with the bytes, not the chunks
  OggVorbis_File vf; memset(&vf, 0x5b, sizeof vf);
  struct R1 { MemSrc *m; long at; } r1{&ms, fat};
  // one-byte reads from invocation `fat` on are realised through read_mode (switched on by a tiny wrapper below)
  ov_callbacks cb = ms_callbacks(true);
  static thread_local R1 *g_r1; g_r1 = read1_from ? &r1 : nullptr;
  if (read1_from) cb.read_func = [](void *p, size_t s, size_t n, void *ds) -> size_t { MemSrc *m = (MemSrc *)ds; if (g_r1 && m->calls >= g_r1->at) m->read_mode = 1; return ms_read(p, s, n, ds); };
  out.open.cb_first = ms.calls; ms.mark();
  out.open_ret = ov_open_callbacks(&ms, &vf, NULL, 0, cb); out.open.ret = out.open_ret; out.open.cb_last = ms.calls;
  if (ms.faults_hit) out.faulted_call = -1;
  if (out.open_ret != 0) {
    unsigned char *p = (unsigned char *)&vf; for (size_t i = 0; i < sizeof vf; i++) if (p[i]) out.zero_after_failed_open = false;
    out.closes_before_clear = ms.closes; ov_clear(&vf); out.closes_after = ms.closes; out.total_cb = ms.calls; return;
  }
  out.seekable = ov_seekable(&vf) != 0;
  bool stop = out.faulted_call == -1 && !read1_from;
  for (size_t i = 0; i < sc.script.size() && !stop; i++) {
    CallRes cr; cr.cb_first = ms.calls; ms.mark(); long hits = ms.faults_hit;
    cr.ret = do_op(&vf, sc.script[i], sc.c, &cr.hash); cr.cb_last = ms.calls; cr.tell = ov_pcm_tell(&vf);
    out.calls.push_back(cr);
    if (ms.faults_hit > hits && out.faulted_call == -2) { out.faulted_call = (int)i; if (!read1_from) stop = true; }
  }
  // ---- recovery: the callbacks work again
  ms.faults_enabled = false; g_r1 = nullptr; ms.read_mode = 0;
  if (base && out.seekable && out.faulted_call != -2 && !read1_from) {
    out.recovered = true;
    bool hr_uncertain = false; for (size_t i = 0; i < out.calls.size(); i++) if (sc.script[i].kind == OP_HALFRATE) hr_uncertain = true;
    if (hr_uncertain) { ms.mark(); ov_halfrate(&vf, 0); }
    for (int64_t p : sc.recov) {
      ms.mark(); int sr = ov_pcm_seek(&vf, p);
      if (sr != 0) { out.recov_err = sfmt("after the failure, with working callbacks, ov_pcm_seek(%lld) returns %d", (long long)p, sr); break; }
      if (ov_pcm_tell(&vf) != p) { out.recov_err = sfmt("after the failure ov_pcm_seek(%lld) leaves ov_pcm_tell at %lld", (long long)p, (long long)ov_pcm_tell(&vf)); break; }
      int64_t pos = p; bool bad = false;
      for (int rd = 0; rd < 3 && !bad; rd++) {
        float **pcm; int bs = -1; ms.mark(); long n = ov_read_float(&vf, &pcm, 700, &bs);
        if (n == 0 && pos >= sc.g.total) break;
        if (n <= 0) { out.recov_err = sfmt("after the failure and ov_pcm_seek(%lld), ov_read_float returns %ld at %lld of %lld", (long long)p, n, (long long)pos, (long long)sc.g.total); bad = true; break; }
        std::string why; vorbis_info *vi = ov_info(&vf, -1);
        if (!gt_compare(sc.g, pos, pcm, n, bs, vi ? vi->channels : -1, why)) { out.recov_err = "after the failure and a fresh seek: " + why; bad = true; break; }
        pos += n;
      }
      if (bad) break;
    }
  }
  out.closes_before_clear = ms.closes; ov_clear(&vf); out.closes_after = ms.closes; out.total_cb = ms.calls;
}

bool prop_run(Tape &t, Report &r) {
  Scenario sc; std::vector<LinkMeta> meta;
  ChainOpts o; o.maxlinks = 2; o.maxN = 5000; o.comments = false; o.vgen_pct = 50; o.maxch = 2; o.vgen_64_pct = 5; o.half = false;
  if (t.chance(1, 3)) { o.maxN = 60000; o.vgen_pct = 10; r.label("larger scenario (reads reach the data source)"); }
  if (!gen_chain(t, r, o, sc.c, sc.g, meta, sc.desc)) return false;
  if (sc.c.bytes.size() > 400000) { r.label("scenario too large: skipped"); return true; }
  int nops = 1 + (int)t.below(6); double dur = 0; for (size_t l = 0; l < sc.c.links.size(); l++) dur += (double)sc.g.len[l] / sc.c.links[l].rate;
  std::string sd;
  for (int i = 0; i < nops; i++) {
    Op op; op.kind = t.weighted({5, 3, 2, 2, 2, 1, 1, 1}); op.arg = 0; op.targ = 0;
    int64_t p = (int64_t)t.spread((uint32_t)std::min<int64_t>(sc.g.total + 1, 0x7fffffff));
    switch (op.kind) {
      case OP_READ: op.arg = 1 + t.below(3000); break; case OP_READ_INT: op.arg = 64 + t.below(4000); break;
      case OP_PCM_SEEK: case OP_PAGE_SEEK: op.arg = p; break;
      case OP_LAP_SEEK: op.arg = p; if (g_tape_gen >= 4) { op.lapv = (int)t.below(5); op.targ = dur * (double)t.below(1000) / 1000.0; op.rawarg = (int64_t)t.spread((uint32_t)sc.c.bytes.size() + 1); } break;
      case OP_RAW_SEEK: op.arg = (int64_t)t.spread((uint32_t)sc.c.bytes.size() + 1); break;
      case OP_TIME_SEEK: op.targ = dur * (double)t.below(1000) / 1000.0; break;
      case OP_HALFRATE: op.arg = 1; { bool has64 = false; for (auto &l : sc.c.links) if (l.bs0 <= 64) has64 = true; if (has64) op.kind = OP_READ, op.arg = 100; } break;
    }
    sc.script.push_back(op); sd += sfmt("%s(%lld%s) ", opname(op.kind), (long long)op.arg, op.kind == OP_TIME_SEEK ? sfmt(" t=%.5f", op.targ).c_str() : op.kind == OP_LAP_SEEK ? sfmt(" variant %d t=%.5f raw=%lld", op.lapv, op.targ, (long long)op.rawarg).c_str() : "");
  }
  for (int i = 0; i < 2; i++) sc.recov.push_back((int64_t)t.spread((uint32_t)std::min<int64_t>(sc.g.total + 1, 0x7fffffff)));
  std::string cd = sc.desc + "| script: " + sd;
  // ---- fault-free baseline
  RunOut base; execute(sc, MemSrc::NONE, -1, 0, false, base, nullptr);
  if (base.open_ret != 0) return r.fail("ov_open_callbacks=%d on an intact file [%s]", base.open_ret, cd.c_str());
  if (base.closes_before_clear != 0 || base.closes_after != 1) return r.fail("close callback ran %ld times before and %ld times after ov_clear on a fault-free run [%s]", base.closes_before_clear, base.closes_after, cd.c_str());
  long n = base.total_cb; r.metric_max("callback invocations in a scenario", (double)n);
  if (n > 900) { r.label("scenario too large: skipped"); return true; }
  // which API call does invocation k belong to (fault-free run)
  auto call_of = [&](long k) { if (k < base.open.cb_last) return -1; for (size_t i = 0; i < base.calls.size(); i++) if (k >= base.calls[i].cb_first && k < base.calls[i].cb_last) return (int)i; return -2; };
  long runs = 0, observed = 0;
  static const int kinds[] = {MemSrc::READ_ERR, MemSrc::READ_ZERO, MemSrc::SEEK_FAIL, MemSrc::TELL_FAIL};
  static const char *kname[] = {"read error (errno=EIO)", "premature zero read", "seek returns -1", "tell returns -1", "one-byte reads"};
  for (long k = 0; k < n; k++) {
    for (int ki = 0; ki < 5; ki++) for (int persist = 0; persist < 2; persist++) {
      bool read1 = ki == 4; if (read1 && persist) continue;
      if (getenv("VERIF_VERBOSE")) fprintf(stderr, "plan k=%ld kind=%d persist=%d\n", k, ki, persist);
      RunOut out; execute(sc, read1 ? MemSrc::NONE : kinds[ki], k, persist ? 1000000000L : 1, read1, out, &base); runs++;
      std::string fd = sfmt("fault: %s at callback invocation %ld (%s; fault-free run: inside %s) ", kname[ki], k, persist ? "persisting" : "one-shot", call_of(k) == -1 ? "ov_open_callbacks" : call_of(k) >= 0 ? opname(sc.script[call_of(k)].kind) : "?");
      // close accounting: never behind the caller's back; exactly once at ov_clear for handles whose open succeeded
      if (out.closes_before_clear != 0) return r.fail("the close callback ran before ov_clear [%s] [%s]", fd.c_str(), cd.c_str());
      if (out.open_ret != 0) {
        if (out.closes_after != 0) return r.fail("close callback ran %ld time(s) for a handle whose open failed with %d [%s] [%s]", out.closes_after, out.open_ret, fd.c_str(), cd.c_str());
        if (!out.zero_after_failed_open) return r.fail("failed open (%d) does not leave the OggVorbis_File cleared [%s] [%s]", out.open_ret, fd.c_str(), cd.c_str());
      } else if (out.closes_after != 1) return r.fail("close callback ran %ld times at ov_clear after a successful open [%s] [%s]", out.closes_after, fd.c_str(), cd.c_str());
      if (read1) {   // short reads must change nothing at all
        if (out.open_ret != 0) return r.fail("one-byte reads from invocation %ld on make ov_open_callbacks fail with %d [%s]", k, out.open_ret, cd.c_str());
        for (size_t i = 0; i < base.calls.size(); i++) if (i >= out.calls.size() || out.calls[i].ret != base.calls[i].ret || out.calls[i].hash != base.calls[i].hash || out.calls[i].tell != base.calls[i].tell)
          return r.fail("with one-byte reads from invocation %ld on, call %zu (%s) gives %ld/tell %lld instead of %ld/tell %lld [%s]", k, i, opname(sc.script[i].kind), i < out.calls.size() ? out.calls[i].ret : -999, i < out.calls.size() ? (long long)out.calls[i].tell : -1LL, base.calls[i].ret, (long long)base.calls[i].tell, cd.c_str());
        continue;
      }
      if (out.faulted_call == -2) continue;   // the fault was never observed by the library (e.g. a seek fault at a read invocation)
      observed++; r.nontriv(mix64(fnv1a(cd.data(), cd.size()) ^ (uint64_t)(k * 16 + ki * 2 + persist)));
      bool hard = ki != 1;
      // calls before the faulted one are unaffected
      int X = out.faulted_call;
      for (int i = 0; i < X && i < (int)base.calls.size(); i++) if (out.calls[i].ret != base.calls[i].ret || out.calls[i].hash != base.calls[i].hash) return r.harness("a call before the fault differs from the baseline [%s] [%s]", fd.c_str(), cd.c_str());
      if (X == -1) {
        // the very first seek callback is the seekability probe: a data source whose seek fails there is simply treated as not seekable
        bool probe = ki == 2 && k == 0;
        if (hard && !probe && out.open_ret == 0) return r.fail("ov_open_callbacks returned 0 although a callback failed during it [%s] [%s]", fd.c_str(), cd.c_str());
        if (probe) r.label("seek fault at the seekability probe (opens as a stream)");
        r.label(out.open_ret ? "fault during open: open fails" : "fault during open: open succeeds"); continue;
      }
      const CallRes &cr = out.calls[X]; int opk = sc.script[X].kind; bool is_read = opk == OP_READ || opk == OP_READ_INT;
      if (hard) {
        if (is_read) { if (cr.ret > 0 && cr.hash != base.calls[X].hash) return r.fail("%s delivered different data (%ld) during a failing callback [%s] [%s]", opname(opk), cr.ret, fd.c_str(), cd.c_str()); }
        else if (opk == OP_HALFRATE) { /* its re-seek is best effort: the flags are what the call reports on */ }
        else if (cr.ret == 0) return r.fail("%s returned 0 although a callback failed during it [%s] [%s]", opname(opk), fd.c_str(), cd.c_str());
      }
      r.label(sfmt("fault during %s", opname(opk)));
      if (!out.recov_err.empty()) return r.fail("%s [%s] [%s]", out.recov_err.c_str(), fd.c_str(), cd.c_str());
      if (out.recovered) r.label("recovery seek and reads verified");
    }
  }
  r.label(sfmt("links=%zu", sc.c.links.size()));
  r.metric_max("faulted runs in one scenario", (double)runs);
  if (r.want_sample()) r.sample(cd + sfmt(" | %ld callback invocations, %ld faulted runs, %ld observed by the library", n, runs, observed));
  return true;
}
