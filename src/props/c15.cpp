// C15: encoder set-up succeeds completely or fails cleanly for all arguments.
#include "../common.h"
#include <cfloat>
const char *prop_id() { return "C15"; }

static long gen_rate(Tape &t) {
  static const long around[] = {8000, 9000, 15000, 19000, 26000, 40000, 50000, 70000, 200000, 11025, 16000, 22050, 32000, 44100, 48000, 96000};
  switch (t.weighted({6, 4, 2, 1, 1})) {
    case 0: return kRates[t.below(sizeof kRates / sizeof kRates[0])];
    case 1: return around[t.below(16)] + (long)t.below(5) - 2;                 // boundary +-2
    case 2: { static const long odd[] = {0, 1, -1, 2, 7, 100, 3999, 2147483647L, 1000000, 250000, 200001}; return odd[t.below(11)]; }
    case 3: return 1 + (long)t.spread(300000);
    default: return (long)(int32_t)t.raw();
  }
}
static int gen_channels(Tape &t) {
  switch (t.weighted({8, 3, 2})) { case 0: return 1 + (int)t.below(8); case 1: { static const int b[] = {0, -1, 255, 256, 257, 300, 9, 16, 100, 254}; return b[t.below(10)]; } default: return -1 + (int)t.below(302); }
}
static float gen_quality(Tape &t) {
  switch (t.weighted({8, 3, 1})) { case 0: return (float)(t.range(-1, 10) / 10.0); case 1: { static const float q[] = {-0.2f, 1.0001f, 2.f, -1.f, 0.9999f, -0.1001f, 1e30f, -1e30f, 0.55555f}; return q[t.below(9)]; } default: { static const float w[] = {NAN, INFINITY, -INFINITY}; return w[t.below(3)]; } }
}
static long gen_br(Tape &t, long nominal_hint) {
  switch (t.weighted({5, 3, 2, 1})) { case 0: return -1; case 1: return nominal_hint > 0 ? std::max<long>(1, nominal_hint + (long)t.below(40001) - 20000) : 64000; case 2: { static const long b[] = {0, 1, 1000, 8000, 500000, 2000000, 2147483647L, -2, 45000}; return b[t.below(9)]; } default: return (long)t.spread(600000); }
}
static bool documented(int ret) { return ret == 0 || ret == OV_EINVAL || ret == OV_EIMPL || ret == OV_EFAULT; }
static bool all_zero(const vorbis_info &vi) { const unsigned char *p = (const unsigned char *)&vi; for (size_t i = 0; i < sizeof vi; i++) if (p[i]) return false; return true; }

// one vorbis_encode_ctl request drawn from the tape; returns the library's answer, describes itself in d
static int ctl_request(Tape &t, vorbis_info *vi, std::string &d, bool *was_set) {
  static const int reqs[] = {OV_ECTL_RATEMANAGE2_GET, OV_ECTL_RATEMANAGE2_SET, OV_ECTL_LOWPASS_GET, OV_ECTL_LOWPASS_SET, OV_ECTL_IBLOCK_GET, OV_ECTL_IBLOCK_SET, OV_ECTL_COUPLING_GET, OV_ECTL_COUPLING_SET,
                             OV_ECTL_RATEMANAGE_GET, OV_ECTL_RATEMANAGE_SET, OV_ECTL_RATEMANAGE_AVG, OV_ECTL_RATEMANAGE_HARD, 0x50, 0x16, 0x7fffffff, 0};
  int req = reqs[t.weighted({3, 5, 1, 3, 1, 3, 1, 3, 1, 2, 2, 2, 1, 1, 1, 1})]; *was_set = (req & 0xf) != 0;
  static const double dv[] = {0, 1, 2, 1.99, 99, 99.01, 1000, -1, -15, -15.01, 0.5, 20, 1e300, -1e300, 8.5, 44.1};
  switch (req) {
    case OV_ECTL_RATEMANAGE2_GET: { ovectl_ratemanage2_arg a; bool nul = t.chance(1, 6); int r = vorbis_encode_ctl(vi, req, nul ? nullptr : &a); d += sfmt("RM2_GET%s=%d ", nul ? "(NULL)" : "", r); return r; }
    case OV_ECTL_RATEMANAGE2_SET: {
      if (t.chance(1, 6)) { int r = vorbis_encode_ctl(vi, req, nullptr); d += sfmt("RM2_SET(NULL)=%d ", r); return r; }
      ovectl_ratemanage2_arg a; memset(&a, 0, sizeof a); vorbis_encode_ctl(vi, OV_ECTL_RATEMANAGE2_GET, &a);
      static const long kb[] = {0, -1, 1, 8, 32, 64, 128, 500, 100000, 2000000};
      if (g_tape_gen >= 3 && t.chance(1, 3)) {   // one-field probe: everything else valid, so that no other validation masks the field under test
        if (t.chance(1, 2)) { a.management_active = 1; if (a.bitrate_average_kbps <= 0) a.bitrate_average_kbps = t.chance(1, 2) ? 64 : 128; }
        static const long rb[] = {0, 1, 127, 128, 1000, 100000, 2000000000L, -1, 64000}; static const double bi[] = {0, 1, 0.5, -0.01, 1.01, 0.1, (double)NAN};
        static const double da[] = {0, -1, 1e-9, 0.1, 1.5, 100, 1e30, -0.001, -0.02, -1e-9, (double)NAN, -1e30};
        switch (t.below(6)) { case 0: a.bitrate_limit_min_kbps = kb[t.below(10)]; break; case 1: a.bitrate_limit_max_kbps = kb[t.below(10)]; break; case 2: a.bitrate_average_kbps = kb[t.below(10)]; break;
          case 3: a.bitrate_limit_reservoir_bits = rb[t.below(9)]; break; case 4: a.bitrate_limit_reservoir_bias = bi[t.below(7)]; break; default: a.bitrate_average_damping = da[t.below(12)]; break; }
        int r = vorbis_encode_ctl(vi, req, &a); d += sfmt("RM2_SET(probe){act=%d %ld/%ld/%ld res=%ld bias=%g damp=%g}=%d ", a.management_active, a.bitrate_limit_min_kbps, a.bitrate_average_kbps, a.bitrate_limit_max_kbps, a.bitrate_limit_reservoir_bits, a.bitrate_limit_reservoir_bias, a.bitrate_average_damping, r); return r;
      }
      if (t.chance(1, 2)) a.management_active = (int)t.below(3) - 0; if (t.chance(1, 2)) a.bitrate_limit_min_kbps = kb[t.below(10)]; if (t.chance(1, 2)) a.bitrate_limit_max_kbps = kb[t.below(10)]; if (t.chance(1, 2)) a.bitrate_average_kbps = kb[t.below(10)];
      if (t.chance(1, 2)) { static const long rb[] = {0, 1, 127, 128, 1000, 100000, 2000000000L, -1, 64000}; a.bitrate_limit_reservoir_bits = rb[t.below(9)]; }
      if (t.chance(1, 2)) { static const double bi[] = {0, 1, 0.5, -0.01, 1.01, 0.1}; a.bitrate_limit_reservoir_bias = bi[t.below(6)]; }
      if (t.chance(1, 3)) { static const double da[] = {0, -1, 1e-9, 0.1, 1.5, 100, 1e30, -0.001, -0.02, -1e-9, (double)NAN, -1e30}; a.bitrate_average_damping = da[g_tape_gen >= 3 ? t.below(12) : t.below(7)]; }
      int r = vorbis_encode_ctl(vi, req, &a); d += sfmt("RM2_SET{act=%d %ld/%ld/%ld res=%ld bias=%g damp=%g}=%d ", a.management_active, a.bitrate_limit_min_kbps, a.bitrate_average_kbps, a.bitrate_limit_max_kbps, a.bitrate_limit_reservoir_bits, a.bitrate_limit_reservoir_bias, a.bitrate_average_damping, r); return r; }
    case OV_ECTL_LOWPASS_GET: case OV_ECTL_IBLOCK_GET: { double v = -7; int r = vorbis_encode_ctl(vi, req, &v); d += sfmt("%s=%d(%g) ", req == OV_ECTL_LOWPASS_GET ? "LOWPASS_GET" : "IBLOCK_GET", r, v); return r; }
    case OV_ECTL_LOWPASS_SET: case OV_ECTL_IBLOCK_SET: { double v = dv[t.below(16)]; int r = vorbis_encode_ctl(vi, req, &v); d += sfmt("%s(%g)=%d ", req == OV_ECTL_LOWPASS_SET ? "LOWPASS_SET" : "IBLOCK_SET", v, r); return r; }
    case OV_ECTL_COUPLING_GET: { int v = -7; int r = vorbis_encode_ctl(vi, req, &v); d += sfmt("COUPLING_GET=%d(%d) ", r, v); return r; }
    case OV_ECTL_COUPLING_SET: { int v = (int)t.below(4) - 1; int r = vorbis_encode_ctl(vi, req, &v); d += sfmt("COUPLING_SET(%d)=%d ", v, r); return r; }
    case OV_ECTL_RATEMANAGE_GET: { ovectl_ratemanage_arg a; int r = vorbis_encode_ctl(vi, req, &a); d += sfmt("RM_GET=%d ", r); return r; }
    case OV_ECTL_RATEMANAGE_SET: case OV_ECTL_RATEMANAGE_AVG: case OV_ECTL_RATEMANAGE_HARD: {
      if (t.chance(1, 4)) { int r = vorbis_encode_ctl(vi, req, nullptr); d += sfmt("RM_%x(NULL)=%d ", req, r); return r; }
      ovectl_ratemanage_arg a; memset(&a, 0, sizeof a); vorbis_encode_ctl(vi, OV_ECTL_RATEMANAGE_GET, &a);
      static const long br[] = {0, -1, 1000, 32000, 64000, 128000, 500000, 2000000000L};
      if (t.chance(1, 2)) a.management_active = (int)t.below(2); if (t.chance(1, 2)) a.bitrate_hard_min = br[t.below(8)]; if (t.chance(1, 2)) a.bitrate_hard_max = br[t.below(8)];
      if (t.chance(1, 2)) a.bitrate_av_lo = br[t.below(8)]; if (t.chance(1, 2)) a.bitrate_av_hi = br[t.below(8)]; if (t.chance(1, 2)) { static const double w[] = {0, 0.001, 1, 2, 10, 1000, -1}; a.bitrate_hard_window = w[t.below(7)]; }
      int r = vorbis_encode_ctl(vi, req, &a); d += sfmt("RM_%x{act=%d hard %ld..%ld av %ld..%ld win=%g}=%d ", req, a.management_active, a.bitrate_hard_min, a.bitrate_hard_max, a.bitrate_av_lo, a.bitrate_av_hi, a.bitrate_hard_window, r); return r; }
    default: { double scratch[8] = {0}; int r = vorbis_encode_ctl(vi, req, scratch); d += sfmt("ctl(0x%x)=%d ", req, r); if (r == 0) return -9999; return r; }   // unknown request numbers must be refused
  }
}

bool prop_run(Tape &t, Report &r) {
  int channels = gen_channels(t); long rate = gen_rate(t); float q = gen_quality(t);
  long nomhint = (rate > 0 && rate < 300000 && channels > 0) ? (long)(rate * (channels > 1 ? 2.5 : 1.5)) : 64000;
  long bmax = gen_br(t, nomhint), bnom = gen_br(t, nomhint), bmin = gen_br(t, nomhint);
  if (t.chance(1, 2)) { bnom = nomhint; if (t.chance(1, 2)) bmax = -1; if (t.chance(1, 2)) bmin = -1; }
  int entry = t.weighted({4, 3, 3, 3});   // init_vbr, init (managed), three-step vbr, three-step managed
  // boundary seeking: the accepted nominal bitrates of a (channels, rate) pair form an interval whose ends are template constants that no
  // fixed list can know; find them by bisection on the set-up call itself and aim at the ends +-1
  if ((entry == 1 || entry == 3) && channels >= 1 && channels <= 255 && rate >= 1 && t.chance(1, 3)) {
    auto accepted = [&](long nom) { vorbis_info p; vorbis_info_init(&p); int pr = vorbis_encode_setup_managed(&p, channels, rate, -1, nom, -1); vorbis_info_clear(&p); return pr == 0; };
    if (accepted(nomhint)) {
      long lo = nomhint, hi = 8000000; while (hi - lo > 1) { long mid = lo + (hi - lo) / 2; if (accepted(mid)) lo = mid; else hi = mid; } long ceil_ok = lo;
      lo = 0; hi = nomhint; while (hi - lo > 1) { long mid = lo + (hi - lo) / 2; if (accepted(mid)) hi = mid; else lo = mid; } long floor_ok = hi;
      static const int off[] = {0, -1, 1, 0, 0, 2}; int w = (int)t.below(6); bnom = (t.chance(1, 2) ? ceil_ok : floor_ok) + off[w]; if (bnom < 1) bnom = 1;
      bmax = t.chance(1, 3) ? bnom : -1; bmin = t.chance(1, 4) ? bnom : -1; r.label("nominal bitrate at the edge of the accepted interval");
    }
  }
  vorbis_info vi; memset(&vi, 0x77, sizeof vi); vorbis_info_init(&vi);
  std::string d = sfmt("ch=%d rate=%ld q=%g br=%ld/%ld/%ld entry=%d ", channels, rate, (double)q, bmax, bnom, bmin, entry);
  int ret; bool one_step = entry < 2;
  if (entry == 0) ret = vorbis_encode_init_vbr(&vi, channels, rate, q);
  else if (entry == 1) ret = vorbis_encode_init(&vi, channels, rate, bmax, bnom, bmin);
  else {
    ret = entry == 2 ? vorbis_encode_setup_vbr(&vi, channels, rate, q) : vorbis_encode_setup_managed(&vi, channels, rate, bmax, bnom, bmin);
    d += sfmt("setup=%d ", ret);
    if (!documented(ret)) return r.fail("set-up call returned the undocumented code %d [%s]", ret, d.c_str());
    if (ret == 0) {
      int nreq = (int)t.below(9);
      for (int i = 0; i < nreq; i++) { bool ws; int cr = ctl_request(t, &vi, d, &ws); if (cr == -9999) return r.fail("vorbis_encode_ctl accepted an unknown request number [%s]", d.c_str()); if (!documented(cr)) return r.fail("vorbis_encode_ctl returned the undocumented code %d [%s]", cr, d.c_str()); if (ws && cr == 0) r.label("ctl SET accepted before setup_init"); }
      ret = vorbis_encode_setup_init(&vi); d += sfmt("setup_init=%d ", ret);
      if (ret == 0) {   // requests after setup_init: every SET must be refused, GETs still answer
        int nafter = (int)t.below(3);
        for (int i = 0; i < nafter; i++) { bool ws; int cr = ctl_request(t, &vi, d, &ws); if (ws && cr == 0) return r.fail("vorbis_encode_ctl accepted a SET request after vorbis_encode_setup_init [%s]", d.c_str()); if (cr != -9999 && !documented(cr)) return r.fail("vorbis_encode_ctl returned the undocumented code %d [%s]", cr, d.c_str()); r.label("ctl after setup_init"); }
      }
    }
  }
  d += sfmt("ret=%d", ret);
  if (!documented(ret)) return r.fail("encoder set-up returned the undocumented code %d [%s]", ret, d.c_str());
  if (ret != 0) {
    r.label("set-up refused"); r.label(sfmt("refused with %d", ret));
    if (one_step && !all_zero(vi)) return r.fail("a failed one-step set-up (%d) left the vorbis_info not cleared (channels=%d rate=%ld codec_setup=%p) [%s]", ret, vi.channels, vi.rate, vi.codec_setup, d.c_str());
    vorbis_info_clear(&vi); vorbis_info_clear(&vi);   // always safe, also twice; leaks are caught by the per-case leak check
    if (!all_zero(vi)) return r.fail("vorbis_info_clear does not leave the structure zeroed [%s]", d.c_str());
    r.nontriv(fnv1a(d.data(), d.size())); if (r.want_sample()) r.sample(d); return true;
  }
  // ---- success: the structure reports what was asked for, and everything after it works
  struct G { vorbis_info *v; vorbis_dsp_state *d = nullptr; vorbis_block *b = nullptr; vorbis_comment *c = nullptr; ~G() { if (b) vorbis_block_clear(b); if (d) vorbis_dsp_clear(d); if (c) vorbis_comment_clear(c); vorbis_info_clear(v); vorbis_info_clear(v); } };
  vorbis_dsp_state vd; vorbis_block vb; vorbis_comment vc; G g{&vi};
  if (channels < 1 || channels > 255 || rate < 1) return r.fail("set-up succeeded for channels=%d rate=%ld [%s]", channels, rate, d.c_str());
  if (vi.channels != channels || vi.rate != rate) return r.fail("set-up succeeded but vorbis_info reports %d channels at %ld Hz [%s]", vi.channels, vi.rate, d.c_str());
  int b0 = vorbis_info_blocksize(&vi, 0), b1 = vorbis_info_blocksize(&vi, 1);
  if (b0 < 64 || b1 > 8192 || b0 > b1 || (b0 & (b0 - 1)) || (b1 & (b1 - 1))) return r.fail("illegal block sizes %d/%d after a successful set-up [%s]", b0, b1, d.c_str());
  bool offgrid = !(rate == 16000 || rate == 22050 || rate == 32000 || rate == 44100 || rate == 48000 || rate == 96000) || channels > 8 || entry != 0;
  if (vorbis_analysis_init(&vd, &vi) != 0) return r.fail("vorbis_analysis_init failed after a successful set-up [%s]", d.c_str()); g.d = &vd;
  if (vorbis_block_init(&vd, &vb) != 0) return r.fail("vorbis_block_init failed [%s]", d.c_str()); g.b = &vb;
  vorbis_comment_init(&vc); g.c = &vc; vorbis_comment_add_tag(&vc, "T", "v");
  ogg_packet h[3]; int hr = vorbis_analysis_headerout(&vd, &vc, &h[0], &h[1], &h[2]);
  if (hr != 0) return r.fail("vorbis_analysis_headerout=%d after a successful set-up [%s]", hr, d.c_str());
  { vorbis_info v2; vorbis_comment c2; vorbis_info_init(&v2); vorbis_comment_init(&c2); int bad = 0; for (int i = 0; i < 3 && !bad; i++) bad = vorbis_synthesis_headerin(&v2, &c2, &h[i]); bool same = !bad && v2.channels == channels && v2.rate == rate; vorbis_comment_clear(&c2); vorbis_info_clear(&v2);
    if (bad) return r.fail("the decoder refuses the header triple of a successful set-up (%d) [%s]", bad, d.c_str()); if (!same) return r.fail("decoded headers disagree on channels/rate [%s]", d.c_str()); }
  // encode M samples
  int msel = g_tape_gen >= 3 ? t.weighted({2, 2, 2, 3, 2}) : t.weighted({2, 2, 2, 3}); int64_t M = msel == 0 ? 0 : msel == 1 ? 1 : msel == 2 ? b1 - 1 : 3 * b1 + 7; if (channels > 32 && M > b1) M = b1 + 3;
  // "any amount of audio": bitrate management only shows its state (reservoir, average tracker) after a second or so
  if (msel == 4) { M = channels <= 2 ? std::min<int64_t>((int64_t)(rate * 1.3), 70000) : channels <= 8 ? 12 * (int64_t)b1 : 3 * b1 + 7; r.label("long encode after set-up"); }
  // a minimum bitrate in the Gbit/s range is accepted and honoured: every packet is padded to hundreds of megabytes.  That is proportional work, not
  // a defect, but it takes minutes per packet under the sanitizers: such set-ups are not encoded (counted)
  { ovectl_ratemanage_arg ga; memset(&ga, 0, sizeof ga);   // (RATEMANAGE2_GET is number 0x14 and is refused like a SET once the set-up is fixed; the old GET, 0x10, still answers)
    if (vorbis_encode_ctl(&vi, OV_ECTL_RATEMANAGE_GET, &ga) == 0 && ga.management_active && ga.bitrate_hard_min > 4000000) { M = -1; r.label("minimum bitrate above 4 Mbit/s: encode skipped"); } }
  Signal sig = Signal::gen(t); d += sfmt(" M=%lld ", (long long)M) + sig.desc(); long packets = 0; int64_t done = 0;
  while (done < M) { int n = (int)std::min<int64_t>(M - done, 1 + t.below(3000)); float **buf = vorbis_analysis_buffer(&vd, n); for (int c = 0; c < channels; c++) sig.fill(c, done, n, buf[c], M); if (vorbis_analysis_wrote(&vd, n)) return r.fail("vorbis_analysis_wrote failed [%s]", d.c_str()); done += n;
    int br; while ((br = vorbis_analysis_blockout(&vd, &vb)) == 1) { if (vorbis_analysis(&vb, NULL)) return r.fail("vorbis_analysis failed [%s]", d.c_str()); if (vorbis_bitrate_addblock(&vb)) return r.fail("vorbis_bitrate_addblock failed [%s]", d.c_str()); ogg_packet op; while (vorbis_bitrate_flushpacket(&vd, &op) == 1) packets++; } if (br < 0) return r.fail("vorbis_analysis_blockout=%d [%s]", br, d.c_str()); }
  if (M >= 0) vorbis_analysis_wrote(&vd, 0);
  if (M >= 0) { int br; while ((br = vorbis_analysis_blockout(&vd, &vb)) == 1) { if (vorbis_analysis(&vb, NULL)) return r.fail("vorbis_analysis failed [%s]", d.c_str()); if (vorbis_bitrate_addblock(&vb)) return r.fail("vorbis_bitrate_addblock failed [%s]", d.c_str()); ogg_packet op; while (vorbis_bitrate_flushpacket(&vd, &op) == 1) packets++; } if (br < 0) return r.fail("vorbis_analysis_blockout=%d at end of input [%s]", br, d.c_str()); }
  r.label("set-up succeeded"); r.label(entry == 0 ? "init_vbr" : entry == 1 ? "init (managed)" : entry == 2 ? "three-step vbr" : "three-step managed");
  if (offgrid) { r.label("successful set-up outside the suite's grid"); r.nontriv(fnv1a(d.data(), d.size())); }
  if (channels > 8) r.label("more than 8 channels");
  if (r.want_sample()) r.sample(d + sfmt(" packets=%ld", packets));
  return true;
}
