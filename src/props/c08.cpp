// C08: see seekcase.h (mode 8)
#include "../seekcase.h"
const char *prop_id() { return "C08"; }
bool prop_run(Tape &t, Report &r) { SeekRun s(t, r, 8); return s.run(); }
