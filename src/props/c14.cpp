// C14: hard bitrate limits hold to within the configured reservoir.
//   arm 1: real encodes with managed configurations and signals that force the extremes
//   arm 2: the rate manager driven directly with generated candidate packet sizes (all sequences the analysis stage could hand to it)
#include "../common.h"
#define class class_   /* lib/backends.h uses the identifier */
extern "C" {
#include "codec_internal.h"
#include "bitrate.h"
}
#undef class
#undef max
#undef min
const char *prop_id() { return "C14"; }

struct Obs { long bits; int W; long res_after; };   // one emitted packet: size, block flag, reservoir fill after it
struct Limits { long max_rate, min_rate, R; double bias; long rate; int bs0, bs1; };

// every contiguous run: sum(bits) <= max_rate*T + R + E and >= min_rate*T - R - E, T = duration of the run's packets, with the stated
// quantisation allowance E (DESIGN.md 3.15).  Also the manager's own invariant 0 <= reservoir <= R after every packet.
static bool check_runs(const std::vector<Obs> &o, const Limits &L, Report &r, const std::string &d, const char *arm) {
  size_t n = o.size(); if (n == 0) return true;
  double unit_max = rint(1.0 * L.max_rate * (L.bs0 / 2) / L.rate), unit_min = rint(1.0 * L.min_rate * (L.bs0 / 2) / L.rate);   // the integer per-short-block quota the manager works with
  int spl = L.bs1 / L.bs0;
  for (size_t i = 0; i < n; i++) if (o[i].res_after < 0 || o[i].res_after > L.R) return r.fail("%s: reservoir fill %ld outside [0,%ld] after packet %zu [%s]", arm, o[i].res_after, L.R, i, d.c_str());
  double worst_over = -1e18, worst_under = -1e18; size_t wi = 0, wj = 0, ui = 0, uj = 0;
  size_t maxlen = n <= 2500 ? n : 2500;   // all O(n^2) runs for n <= 2500; longer streams: all runs up to 2500 packets (longer runs are covered by the reservoir invariant)
  for (size_t i = 0; i < n; i++) {
    double bits = 0, units = 0;
    for (size_t j = i; j < n && j - i < maxlen; j++) {
      bits += o[j].bits; units += o[j].W ? spl : 1;
      double T = units * (L.bs0 / 2) / (double)L.rate;                                        // duration as the manager counts it (half a block per packet)
      double E = 0.5 * units + 8 + (double)std::max(L.max_rate, L.min_rate) * (L.bs1 - L.bs0) / (4.0 * L.rate);   // rounding of the per-unit quota, byte granularity, block-boundary term
      if (L.max_rate > 0) { double over = bits - (L.max_rate * T + L.R + E); if (over > worst_over) { worst_over = over; wi = i; wj = j; } }
      if (L.min_rate > 0) { double under = (L.min_rate * T - L.R - E) - bits; if (under > worst_under) { worst_under = under; ui = i; uj = j; } }
    }
  }
  (void)unit_max; (void)unit_min;
  if (L.max_rate > 0 && worst_over > 0) return r.fail("%s: packets %zu..%zu emit %.0f bits more than max_rate*duration + reservoir (%ld bits) + allowance [%s]", arm, wi, wj, worst_over, L.R, d.c_str());
  if (L.min_rate > 0 && worst_under > 0) return r.fail("%s: packets %zu..%zu fall %.0f bits short of min_rate*duration - reservoir (%ld bits) - allowance [%s]", arm, ui, uj, worst_under, L.R, d.c_str());
  if (L.max_rate > 0) r.metric_max("worst (bits - max*T - R - E), must stay <= 0", worst_over);
  return true;
}

static bool setup_managed(Tape &t, Report &r, vorbis_info &vi, Limits &L, std::string &d, int &channels) {
  static const long rates[] = {44100, 48000, 32000, 22050, 16000, 11025, 8000}; long rate = rates[t.weighted({6, 2, 2, 2, 1, 1, 2})]; channels = 1 + (int)t.weighted({4, 5, 1, 1, 1, 1});
  double scale = (double)rate / 44100.0; long nom = (long)((24000 + 2000 * (long)t.below(50)) * (scale < 0.25 ? 0.25 : scale)) * (channels > 2 ? 2 : channels);
  int shape = t.weighted({3, 2, 3, 2});   // max only, min only, both, CBR
  long mx = -1, mn = -1; if (shape == 0 || shape == 2) mx = nom + nom / (2 + (long)t.below(6)); if (shape == 1 || shape == 2) mn = nom - nom / (2 + (long)t.below(6)); if (shape == 3) mx = mn = nom;
  vorbis_info_init(&vi);
  int sr = vorbis_encode_setup_managed(&vi, channels, rate, mx, nom, mn);
  if (sr) { vorbis_info_clear(&vi); r.label("managed set-up refused"); return false; }
  ovectl_ratemanage2_arg a; vorbis_encode_ctl(&vi, OV_ECTL_RATEMANAGE2_GET, &a);
  int rsel = t.weighted({3, 2, 2, 2, 1});   // default 2 s reservoir, halved, tiny, small absolute, doubled
  switch (rsel) { case 1: a.bitrate_limit_reservoir_bits /= 2; break; case 2: a.bitrate_limit_reservoir_bits = a.bitrate_limit_reservoir_bits / 64 + 1; break; case 3: a.bitrate_limit_reservoir_bits = 500 + (long)t.below(8) * 500; break; case 4: a.bitrate_limit_reservoir_bits *= 2; break; default: break; }
  a.bitrate_limit_reservoir_bias = t.below(11) / 10.0; if (t.chance(1, 3)) a.bitrate_average_kbps = 0;   // limits only, no average tracking
  if (t.chance(1, 4)) a.bitrate_average_damping = 0.2 + t.below(40) / 10.0;
  int cr = vorbis_encode_ctl(&vi, OV_ECTL_RATEMANAGE2_SET, &a);
  sr = vorbis_encode_setup_init(&vi);
  if (sr) { vorbis_info_clear(&vi); r.label("managed set-up refused"); return false; }
  codec_setup_info *ci = (codec_setup_info *)vi.codec_setup;
  L.max_rate = ci->bi.max_rate; L.min_rate = ci->bi.min_rate; L.R = ci->bi.reservoir_bits; L.bias = ci->bi.reservoir_bias; L.rate = vi.rate; L.bs0 = ci->blocksizes[0]; L.bs1 = ci->blocksizes[1];
  d = sfmt("managed{ch=%d rate=%ld max/nom/min=%ld/%ld/%ld shape=%d ctl=%d -> max_rate=%ld min_rate=%ld avg=%ld reservoir=%ld bias=%.1f bs=%d/%d}", channels, rate, mx, nom, mn, shape, cr, L.max_rate, L.min_rate, ci->bi.avg_rate, L.R, L.bias, L.bs0, L.bs1);
  return true;
}

bool prop_run(Tape &t, Report &r) {
  vorbis_info vi; Limits L; std::string d; int channels; vorbis_dsp_state vd; vorbis_block vb;
  if (!setup_managed(t, r, vi, L, d, channels)) return true;
  struct G { vorbis_info *v; vorbis_dsp_state *d = nullptr; vorbis_block *b = nullptr; ~G() { if (b) vorbis_block_clear(b); if (d) vorbis_dsp_clear(d); vorbis_info_clear(v); } } g{&vi};
  if (vorbis_analysis_init(&vd, &vi)) return r.fail("analysis_init failed [%s]", d.c_str()); g.d = &vd; vorbis_block_init(&vd, &vb); g.b = &vb;
  private_state *ps = (private_state *)vd.backend_state; bitrate_manager_state *bm = &ps->bms;
  if (L.R <= 0 || !bm->managed) { r.label("management inactive"); return true; }
  if (L.max_rate <= 0 && L.min_rate <= 0) { r.label("no hard limit configured"); return true; }
  std::vector<Obs> obs; bool limited = false;
  if (t.chance(1, 2)) {
    // ---- arm 1: real encode; the signal alternates between segments that are cheap and segments that are expensive to code
    int nseg = 2 + (int)t.below(8); int64_t total = 0; std::string sd;
    for (int sgi = 0; sgi < nseg; sgi++) {
      Signal sig = Signal::gen(t); int k = t.weighted({3, 4, 2, 2}); sig.kind = k == 0 ? 0 : k == 1 ? 4 : k == 2 ? 5 : 2; if (sig.kind == 4) sig.amp = 0.9; if (sig.kind == 5) { sig.period = 200 + t.below(3000); sig.amp = 0.9; }
      int64_t len = (int64_t)L.bs1 * (1 + t.below(20)) + t.below(3000); if (total + len > 400000) len = std::max<int64_t>(0, 400000 - total); sd += sfmt("%d:%lld ", sig.kind, (long long)len);
      int64_t done = 0;
      while (done < len) {
        int n = (int)std::min<int64_t>(len - done, 4096); float **buf = vorbis_analysis_buffer(&vd, n); for (int c = 0; c < channels; c++) sig.fill(c, total + done, n, buf[c], total + len); vorbis_analysis_wrote(&vd, n); done += n;
        while (vorbis_analysis_blockout(&vd, &vb) == 1) { if (vorbis_analysis(&vb, NULL)) return r.fail("vorbis_analysis failed [%s]", d.c_str()); int W = (int)vb.W; if (vorbis_bitrate_addblock(&vb)) return r.fail("bitrate_addblock failed [%s]", d.c_str()); ogg_packet op; while (vorbis_bitrate_flushpacket(&vd, &op) == 1) obs.push_back(Obs{op.bytes * 8, W, bm->minmax_reservoir}); }
      }
      total += len;
    }
    vorbis_analysis_wrote(&vd, 0);
    while (vorbis_analysis_blockout(&vd, &vb) == 1) { if (vorbis_analysis(&vb, NULL)) return r.fail("vorbis_analysis failed [%s]", d.c_str()); int W = (int)vb.W; vorbis_bitrate_addblock(&vb); ogg_packet op; while (vorbis_bitrate_flushpacket(&vd, &op) == 1) obs.push_back(Obs{op.bytes * 8, W, bm->minmax_reservoir}); }
    d += " signal segments(kind:len) " + sd; r.label("arm: real encode");
    if (!check_runs(obs, L, r, d, "real encode")) return false;
    for (auto &x : obs) if (x.res_after > 0 && x.res_after != (long)(L.R * L.bias)) limited = true;
  } else {
    // ---- arm 2: candidate sizes straight into vorbis_bitrate_addblock
    // one genuine block first, so that the vorbis_block is in the state the analysis stage leaves it in
    { float **buf = vorbis_analysis_buffer(&vd, L.bs1 * 3); for (int c = 0; c < channels; c++) for (int i = 0; i < L.bs1 * 3; i++) buf[c][i] = 0.f; vorbis_analysis_wrote(&vd, L.bs1 * 3); if (vorbis_analysis_blockout(&vd, &vb) != 1) return r.harness("no first block"); if (vorbis_analysis(&vb, NULL)) return r.harness("analysis failed"); }
    vorbis_block_internal *vbi = (vorbis_block_internal *)vb.internal; int steps = 200 + (int)t.below(1800); Bulk bz(t.raw() | 1); int profile = t.below(5); long base = (long)(L.max_rate > 0 ? L.max_rate : L.min_rate) * (L.bs0 / 2) / L.rate / 8 + 1;   // bytes of one short-block quota
    for (int sidx = 0; sidx < steps; sidx++) {
      int W = L.bs0 == L.bs1 ? 0 : (bz.below(4) == 0 ? 1 - (sidx & 1) : (bz.below(3) == 0)); vb.W = W; long q = base * (W ? L.bs1 / L.bs0 : 1);
      long sizes[PACKETBLOBS];
      for (int b = 0; b < PACKETBLOBS; b++) {
        long v;
        switch (profile) { case 0: v = q * (b + 1) / 8 + bz.below(5); break;                         // monotone around the quota
          case 1: v = bz.below((uint32_t)(3 * q + 2)); break;                                            // non-monotone
          case 2: v = (sidx / 50) & 1 ? 4 * q + bz.below(40) : bz.below(3); break;                       // bursts of expensive / nearly empty blocks
          case 3: v = q; break;                                                                          // all equal
          default: v = bz.below(20) == 0 ? 60000 : (b < 7 ? 0 : q * (b - 6)); break; }                   // zero-size and huge candidates
        sizes[b] = v;
      }
      for (int b = 0; b < PACKETBLOBS; b++) { oggpack_reset(vbi->packetblob[b]); for (long k = 0; k < sizes[b]; k++) oggpack_write(vbi->packetblob[b], 0x5a, 8); }
      if (vorbis_bitrate_addblock(&vb)) return r.fail("vorbis_bitrate_addblock refused a block [%s]", d.c_str());
      ogg_packet op; int fr = vorbis_bitrate_flushpacket(&vd, &op); if (fr != 1) return r.fail("vorbis_bitrate_flushpacket=%d after addblock [%s]", fr, d.c_str());
      if (op.bytes * 8 != sizes[bm->choice] * 8) limited = true;   // truncated or padded
      obs.push_back(Obs{op.bytes * 8, W, bm->minmax_reservoir});
    }
    d += sfmt(" direct drive: %d steps profile %d", steps, profile); r.label("arm: direct drive of the rate manager"); r.label(sfmt("direct profile %d", profile));
    if (!check_runs(obs, L, r, d, "direct drive")) return false;
  }
  r.label(L.max_rate > 0 && L.min_rate > 0 ? (L.max_rate == L.min_rate ? "CBR" : "max and min") : L.max_rate > 0 ? "max only" : "min only");
  if (limited) { r.label("limiter acted (truncation, padding or reservoir moved)"); r.nontriv(fnv1a(d.data(), d.size())); }
  if (r.want_sample()) r.sample(d + sfmt(" packets=%zu", obs.size()));
  return true;
}
