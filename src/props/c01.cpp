// C01: decoder output conforms to the Vorbis I specification (vgen streams vs the specification-level reference decoder of vspec.h).
#include "../vgen.h"
const char *prop_id() { return "C01"; }

bool prop_run(Tape &t, Report &r) {
  vg::GenOpts o; o.maxch = t.chance(1, 25) ? 255 : 8; o.allow_res2_odd = !kf_open("D8") && t.chance(1, 2);
  if (kf_open("D8")) r.exclude("D8");
  int npk = 2 + (int)t.below(t.chance(1, 4) ? 39 : 9);
  vg::GenStream g; vg::gen_stream(t, o, npk, g);
  if (!g.ok) return r.harness("vgen: %s", g.err.c_str());
  const vs::Setup &s = g.s; LStream &ls = g.ls;
  // cost bound for the O(N^2) reference transform: drop trailing packets of very expensive cases
  { double ops = 0; size_t keep = 0; for (size_t k = 0; k < ls.audio.size(); k++) { double n = s.bs(g.pkt_W[k]); ops += (double)s.channels * n * n / 2; if (ops > 1.5e8 && k >= 3) break; keep = k + 1; } if (keep < ls.audio.size()) { ls.audio.resize(keep); g.contrib.resize(keep); g.pkt_W.resize(keep); r.label("case truncated for cost"); } }
  npk = (int)ls.audio.size();
  std::string cd = ls.desc; for (auto &f : g.feat) r.label(f);
  r.label(sfmt("bs0=%d", s.bs(0))); r.label(sfmt("bs1=%d", s.bs(1))); if (s.channels > 8) r.label("channels > 8");
  // ---- self-check: the headers re-parse (strict, independent reader) to what was intended
  vs::Setup s2; std::string e1 = vs::parse_id(ls.hdr[0].data, s2); if (!e1.empty()) return r.harness("own id header does not parse: %s", e1.c_str());
  std::string e2 = vs::parse_setup(ls.hdr[2].data, s2); if (!e2.empty()) return r.harness("own setup header does not parse: %s [%s]", e2.c_str(), cd.c_str());
  if (vs::write_setup(s2) != ls.hdr[2].data) return r.harness("setup header does not survive parse/write [%s]", cd.c_str());
  // ---- granule scheme
  int scheme = t.weighted({2, 5, 3}); std::vector<int64_t> gp(npk, -1); std::vector<int> skip(npk, 0), cut(npk, 0); int64_t cum = 0;
  if (scheme == 1 || scheme == 2) {
    int off = 0;
    if (scheme == 2 && npk >= 3 && g.contrib[1] > 0) { off = 1 + (int)t.below((uint32_t)g.contrib[1]); skip[1] = off; r.label("start trim"); }
    Bulk pg(t.raw() | 1);
    for (int k = 0; k < npk; k++) { cum += g.contrib[k]; bool pageend = (k == npk - 1) || (scheme == 2 && k == 1) || pg.below(3) == 0; if (scheme == 2 && k == 0) pageend = false; if (pageend) gp[k] = cum - off; }
    int last = npk - 1; int trim = g.contrib[last] > 0 && t.chance(2, 3) ? (int)t.below((uint32_t)g.contrib[last] + 1) : 0;
    if (scheme == 2 && last == 1) trim = 0;
    if (trim) { gp[last] -= trim; cut[last] = trim; r.label(trim == g.contrib[last] ? "end trim = whole block" : "end trim"); }
    r.label("page-style granule positions");
  } else r.label("granule positions all -1");
  // ---- libvorbis
  vorbis_info vi; vorbis_comment vc; vorbis_dsp_state vd; vorbis_block vb; vorbis_info_init(&vi); vorbis_comment_init(&vc);
  struct G { vorbis_info *i; vorbis_comment *c; vorbis_dsp_state *d = nullptr; vorbis_block *b = nullptr; ~G() { if (b) vorbis_block_clear(b); if (d) vorbis_dsp_clear(d); vorbis_comment_clear(c); vorbis_info_clear(i); } } guard{&vi, &vc};
  for (int i = 0; i < 3; i++) { ogg_packet op; ls.hdr[i].to_ogg(op); int hr = vorbis_synthesis_headerin(&vi, &vc, &op); if (hr) return r.fail("vorbis_synthesis_headerin refuses valid header %d (%d) [%s]", i, hr, cd.c_str()); }
  if (vi.channels != s.channels || vi.rate != (long)s.rate || vorbis_info_blocksize(&vi, 0) != s.bs(0) || vorbis_info_blocksize(&vi, 1) != s.bs(1)) return r.fail("vorbis_info disagrees with the identification header [%s]", cd.c_str());
  int ir = vorbis_synthesis_init(&vd, &vi); if (ir) return r.fail("vorbis_synthesis_init=%d on a valid setup [%s]", ir, cd.c_str());
  guard.d = &vd; vorbis_block_init(&vd, &vb); guard.b = &vb;
  // ---- reference
  vs::Synth syn(s2); vs::Lapper lap(s.channels); std::vector<vs::Vec> refout(s.channels);
  bool ill = false; int used_total = 0; bool any_res = false; int prevW = -1; double worst = 0;
  for (int k = 0; k < npk; k++) {
    ogg_packet op; ls.audio[k].to_ogg(op); op.granulepos = gp[k]; op.e_o_s = (k == npk - 1); op.packetno = 3 + k;
    long bsz = vorbis_packet_blocksize(&vi, &op); if (bsz != s.bs(g.pkt_W[k])) return r.fail("vorbis_packet_blocksize=%ld for packet %d with block size %d [%s]", bsz, k, s.bs(g.pkt_W[k]), cd.c_str());
    int sr = vorbis_synthesis(&vb, &op); if (sr) return r.fail("vorbis_synthesis=%d on valid packet %d [%s]", sr, k, cd.c_str());
    int br = vorbis_synthesis_blockin(&vd, &vb); if (br) return r.fail("vorbis_synthesis_blockin=%d packet %d [%s]", br, k, cd.c_str());
    // reference for this packet
    vs::SymIO io; io.gen = false; io.r = vs::BitR(ls.audio[k].data.data(), ls.audio[k].data.size()); vs::Block blk;
    if (!syn.packet(io, nullptr, blk)) return r.harness("reference decoder rejects own packet %d: %s [%s]", k, blk.note.c_str(), cd.c_str());
    if (blk.bits_used > ls.audio[k].data.size() * 8 || blk.bits_used + 8 <= ls.audio[k].data.size() * 8 || blk.bits_used != g.pkt_bits[k]) return r.harness("reference decoder consumed %zu bits of packet %d, generator wrote %zu [%s]", blk.bits_used, k, g.pkt_bits[k], cd.c_str());
    // informational only: the property speaks about samples; a decoder may stop reading where nothing it reads can matter any more
    long lbits = oggpack_bits(&vb.opb); if (lbits != (long)blk.bits_used) r.label("bit consumption differs from the specification-level walk (informational)");
    if (blk.illcond && !ill) r.label("ill-conditioned: " + syn.illwhy); ill = ill || blk.illcond; used_total += blk.used_floors; any_res = any_res || blk.res_nonzero;
    if (prevW >= 0) r.label(sfmt("transition %c%c", prevW ? 'L' : 'S', blk.W ? 'L' : 'S')); prevW = blk.W;
    size_t before = refout[0].v.size(); int produced = lap.push(blk, refout);
    if (produced != g.contrib[k]) return r.harness("lapper produced %d samples, expected %d", produced, g.contrib[k]);
    // apply the granule rules (A.2) to the reference: trim the start of the first page / the end of the stream
    int lo = skip[k], hi = produced - cut[k];
    if (k == npk - 1 && skip[k] && cut[k] == 0 && npk == 2) { lo = 0; hi = produced - skip[k]; }
    for (int c = 0; c < s.channels; c++) { auto &V = refout[c]; std::vector<double> v(V.v.begin() + before + lo, V.v.begin() + before + hi), e(V.e.begin() + before + lo, V.e.begin() + before + hi); V.v.resize(before); V.e.resize(before); V.v.insert(V.v.end(), v.begin(), v.end()); V.e.insert(V.e.end(), e.begin(), e.end()); }
    int want = hi - lo;
    float **pcm; int got = vorbis_synthesis_pcmout(&vd, &pcm);
    if (got != want) return r.fail("packet %d (%s block, previous %s): decoder returns %d samples, the specification defines %d [scheme %d gp %lld] [%s]", k, blk.W ? "long" : "short", k ? (g.pkt_W[k - 1] ? "long" : "short") : "none", got, want, scheme, (long long)gp[k], cd.c_str());
    if (!ill) {
      double peak = 0, emax = 0; for (int c = 0; c < s.channels; c++) for (int i = 0; i < got; i++) { peak = std::max(peak, fabs(refout[c].v[before + i])); emax = std::max(emax, refout[c].e[before + i]); }
      if (emax > 1e-2 * peak || !std::isfinite(peak) || peak > 1e30) { ill = true; r.label("ill-conditioned: error bound above 1% of the block peak"); }
      else for (int c = 0; c < s.channels; c++) for (int i = 0; i < got; i++) {
        double ref = refout[c].v[before + i], tol = 4 * refout[c].e[before + i] + 1e-7 * peak * 1e-3 + 1e-30, d = fabs((double)pcm[c][i] - ref);
        if (!(d <= tol)) return r.fail("packet %d channel %d sample %d: decoder %.9g, specification %.9g (difference %.3g, single-precision bound %.3g, block peak %.3g) [%s; %s]", k, c, i, pcm[c][i], ref, d, tol, peak, cd.c_str(), [&] { std::string f; for (auto &x : g.feat) f += x + "; "; return f; }().c_str());
        if (tol > 0) worst = std::max(worst, d / tol);
      }
    }
    vorbis_synthesis_read(&vd, got);
  }
  r.metric_max("worst |difference| / tolerance", worst);
  if (ill) r.label("ill-conditioned (counts and bit consumption only)"); else r.label("samples compared");
  bool nontriv = npk >= 3 && used_total > 0 && any_res;
  if (nontriv) { uint64_t h = fnv1a(ls.hdr[2].data.data(), ls.hdr[2].data.size()); for (auto &p : ls.audio) h = fnv1a(p.data.data(), p.data.size(), h); r.nontriv(h); }
  if (r.want_sample()) { std::string f; for (auto &x : g.feat) f += x + "; "; r.sample(cd + sfmt(" scheme=%d ill=%d features: ", scheme, (int)ill) + f); }
  return true;
}
