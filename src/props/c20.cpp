// C20: half-rate decoding halves the sample count and keeps positions truthful: see seekcase.h (mode 20)
#include "../seekcase.h"
const char *prop_id() { return "C20"; }
bool prop_run(Tape &t, Report &r) { SeekRun s(t, r, 20); return s.run(); }
