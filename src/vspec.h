// Specification-level Vorbis I model, written from doc/*.tex (Vorbis I specification) only: bit packing (section 2), codebooks (3),
// headers and packet decode (4), floor 0 (6), floor 1 (7), residue 0/1/2 (8), helpers (9), Ogg granule rules (A.2).
// It shares no code, tables or headers with libvorbis.  The same packet walk runs in two modes:
//   decode mode   - symbols are read from the packet (reference decoder, "refdec")
//   generate mode - symbols are chosen from a deterministic stream and written to the packet ("vgen")
// All arithmetic is double precision; every quantity carries a bound on the error that a single-precision evaluation of the same
// expression may have in any association order (DESIGN.md 3.1), so that "equal up to single-precision rounding" is decidable.
#pragma once
#include <cmath>
#include <cstdint>
#include <cstring>
#include <string>
#include <vector>
#include <algorithm>
#include "tape.h"

namespace vs {

static const double EPSF = 5.9604644775390625e-8;   // 2^-24: half an ulp of single precision (relative)

static inline int ilog(int64_t x) { int r = 0; while (x > 0) { r++; x >>= 1; } return r; }

struct Field { size_t pos; int bits; int cat = 0; uint64_t val = 0; };   // cat: which kind of field (BitW::cat at the time of writing), val: the value written   // where a header field was written (for field-level mutation by the fuzzing harnesses)
struct BitW {
  std::vector<uint8_t> b; size_t n = 0; std::vector<Field> *log = nullptr; int cat = 0;
  BitW &c(int k) { cat = k; return *this; }
  void put(uint64_t v, int bits) { if (log && bits > 0) log->push_back(Field{n, bits, cat, v}); for (int i = 0; i < bits; i++) { if ((n & 7) == 0) b.push_back(0); if ((v >> i) & 1) b[n >> 3] |= (uint8_t)(1u << (n & 7)); n++; } }
  void put_msb(uint32_t code, int len) { for (int i = len - 1; i >= 0; i--) put((code >> i) & 1, 1); }   // Huffman codewords: first bit read = first branch
};
struct BitR {
  const uint8_t *p = nullptr; size_t nbits = 0, pos = 0; bool eop = false;
  BitR() {}
  BitR(const uint8_t *d, size_t bytes) : p(d), nbits(bytes * 8) {}
  uint64_t get(int bits) { if (pos + bits > nbits) { eop = true; pos = nbits; return 0; } uint64_t v = 0; for (int i = 0; i < bits; i++) { v |= (uint64_t)((p[pos >> 3] >> (pos & 7)) & 1) << i; pos++; } return v; }
};

static inline double float32_unpack(uint32_t x) {
  double mant = (double)(x & 0x1fffff); uint32_t sign = x & 0x80000000u; int exp = (int)((x & 0x7fe00000u) >> 21);
  if (sign) mant = -mant; return ldexp(mant, exp - 788);
}
static inline int lookup1_values(int entries, int dim) {   // greatest r with r^dim <= entries
  if (entries < 1) return 0; int r = 1;
  for (;;) { int64_t acc = 1; bool over = false; for (int i = 0; i < dim; i++) { acc *= (r + 1); if (acc > entries) { over = true; break; } } if (over) return r; r++; }
}

// ------------------------------------------------------------------------------------------------- codebooks (spec 3)
struct Book {
  int dim = 1, entries = 0; std::vector<uint8_t> len;   // 0 = unused entry
  bool ordered = false, sparse = false;
  int lookup = 0; uint32_t qmin = 0, qdelta = 0; int qbits = 1; int seqp = 0; std::vector<uint32_t> mult;
  // derived
  std::vector<int> used;                 // used entry numbers, ascending
  std::vector<uint32_t> code;            // codeword of each entry (value read MSb-first)
  struct Node { int c[2] = {-1, -1}; int entry = -1; };
  std::vector<Node> tree; bool single = false;
  std::vector<double> vq, vqerr;         // entries*dim values and their single-precision error bounds (lookup != 0)
  int lvals = 0;
  bool ins(int node, int depth, int entry) {   // lowest-valued free codeword of the given length: leftmost free leaf position
    if (tree[node].entry >= 0) return false;
    if (depth == 0) { if (tree[node].c[0] >= 0 || tree[node].c[1] >= 0) return false; tree[node].entry = entry; return true; }
    for (int s = 0; s < 2; s++) {
      if (tree[node].c[s] < 0) { tree[node].c[s] = (int)tree.size(); tree.push_back(Node()); }
      if (ins(tree[node].c[s], depth - 1, entry)) return true;
    }
    return false;
  }
  bool full(int node) const { if (tree[node].entry >= 0) return true; if (tree[node].c[0] < 0 || tree[node].c[1] < 0) return false; return full(tree[node].c[0]) && full(tree[node].c[1]); }
  void walk(int node, uint32_t c, int l) { if (tree[node].entry >= 0) { code[tree[node].entry] = c; return; } for (int s = 0; s < 2; s++) if (tree[node].c[s] >= 0) walk(tree[node].c[s], (c << 1) | (uint32_t)s, l + 1); }
  // returns false when the length list does not describe a valid (complete, or single-entry) prefix code
  bool build() {
    used.clear(); code.assign(entries, 0); tree.clear(); tree.push_back(Node()); single = false;
    for (int i = 0; i < entries; i++) if (len[i]) used.push_back(i);
    if (used.size() == 1) { if (len[used[0]] != 1) return false; single = true; tree[0].c[0] = 1; tree.push_back(Node()); tree[1].entry = used[0]; code[used[0]] = 0; }
    else { for (int e : used) if (!ins(0, len[e], e)) return false; if (!used.empty() && !full(0)) return false; if (!used.empty()) walk(0, 0, 0); }
    vq.clear(); vqerr.clear(); lvals = 0;
    if (lookup == 1 || lookup == 2) {
      double mn = float32_unpack(qmin), de = float32_unpack(qdelta);
      lvals = lookup == 1 ? lookup1_values(entries, dim) : entries * dim;
      vq.assign((size_t)entries * dim, 0); vqerr.assign((size_t)entries * dim, 0);
      for (int e = 0; e < entries; e++) {
        double last = 0, elast = 0; int64_t div = 1;
        for (int i = 0; i < dim; i++) {
          int off = lookup == 1 ? (int)((e / div) % lvals) : e * dim + i;
          double prod = (double)mult[off] * de, v = prod + mn + last;
          double err = EPSF * (fabs(prod) + fabs(prod + mn) + fabs(v)) + elast;
          vq[(size_t)e * dim + i] = v; vqerr[(size_t)e * dim + i] = err;
          if (seqp) { last = v; elast = err; }
          if (lookup == 1) div *= lvals;
        }
      }
    }
    return true;
  }
};

struct Floor0 { int order = 1, rate = 1, barkmap = 1, ampbits = 1, ampoff = 1; std::vector<int> books; };
struct Floor1 { int partitions = 0; int pclass[32] = {0}; int cdim[16] = {0}, csubs[16] = {0}, cbook[16] = {0}, csub[16][8]; int mult = 1, rangebits = 0; std::vector<int> X; int nclass() const { int m = -1; for (int i = 0; i < partitions; i++) m = std::max(m, pclass[i]); return m + 1; } };
struct Floor { int type = 1; Floor0 f0; Floor1 f1; };
struct Residue { int type = 0; int begin = 0, end = 0, psize = 1, classes = 1, classbook = 0; int cascade[64] = {0}; int books[64][8]; };
struct Mapping { int submaps = 1; std::vector<int> mag, ang; std::vector<int> mux; int sfloor[16] = {0}, sres[16] = {0}; };
struct Mode { int blockflag = 0, mapping = 0; };
struct Setup {
  int channels = 1; uint32_t rate = 44100; int32_t br_upper = 0, br_nominal = 0, br_lower = 0; int bs0log = 8, bs1log = 11;
  std::vector<Book> books; std::vector<Floor> floors; std::vector<Residue> residues; std::vector<Mapping> mappings; std::vector<Mode> modes;
  int bs(int flag) const { return 1 << (flag ? bs1log : bs0log); }
};

// ------------------------------------------------------------------------------------------------- header writers (spec 4.2)
static inline void put_str(BitW &w, const char *s) { for (; *s; s++) w.put((uint8_t)*s, 8); }
static inline std::vector<uint8_t> write_id(const Setup &s, std::vector<Field> *log = nullptr) {
  BitW w; w.log = log; w.put(1, 8); put_str(w, "vorbis"); w.put(0, 32); w.put((uint32_t)s.channels, 8); w.put(s.rate, 32);
  w.put((uint32_t)s.br_upper, 32); w.put((uint32_t)s.br_nominal, 32); w.put((uint32_t)s.br_lower, 32); w.put((uint32_t)s.bs0log, 4); w.put((uint32_t)s.bs1log, 4); w.put(1, 1); return w.b;
}
static inline std::vector<uint8_t> write_comment(const std::string &vendor, const std::vector<std::string> &c) {
  BitW w; w.put(3, 8); put_str(w, "vorbis"); w.put((uint32_t)vendor.size(), 32); for (char ch : vendor) w.put((uint8_t)ch, 8);
  w.put((uint32_t)c.size(), 32); for (auto &e : c) { w.put((uint32_t)e.size(), 32); for (char ch : e) w.put((uint8_t)ch, 8); } w.put(1, 1); return w.b;
}
static inline void write_book(BitW &w, const Book &b) {
  w.c(27).put(0x564342, 24); w.c(1).put((uint32_t)b.dim, 16); w.c(2).put((uint32_t)b.entries, 24); w.c(3).put(b.ordered ? 1 : 0, 1);
  if (!b.ordered) { w.put(b.sparse ? 1 : 0, 1); w.c(4); for (int i = 0; i < b.entries; i++) { if (b.sparse) { w.put(b.len[i] ? 1 : 0, 1); if (!b.len[i]) continue; } w.put((uint32_t)(b.len[i] - 1), 5); } }
  else { w.c(4); int cur = 0, l = b.entries ? b.len[0] : 1; w.put((uint32_t)(l - 1), 5); while (cur < b.entries) { int n = 0; while (cur + n < b.entries && b.len[cur + n] == l) n++; w.put((uint32_t)n, ilog(b.entries - cur)); cur += n; l++; } }
  w.c(5).put((uint32_t)b.lookup, 4);
  if (b.lookup) { w.c(6).put(b.qmin, 32); w.put(b.qdelta, 32); w.c(7).put((uint32_t)(b.qbits - 1), 4); w.put((uint32_t)b.seqp, 1); w.c(8); for (uint32_t m : b.mult) w.put(m, b.qbits); }
}
static inline std::vector<uint8_t> write_setup(const Setup &s, std::vector<Field> *log = nullptr) {
  BitW w; w.log = log; w.c(27).put(5, 8); put_str(w, "vorbis");
  w.c(9).put((uint32_t)s.books.size() - 1, 8); for (auto &b : s.books) write_book(w, b);
  w.c(9).put(0, 6); w.put(0, 16);
  w.put((uint32_t)s.floors.size() - 1, 6);
  for (auto &f : s.floors) {
    w.c(10).put((uint32_t)f.type, 16);
    if (f.type == 0) { auto &z = f.f0; w.c(11).put(z.order, 8); w.put(z.rate, 16); w.put(z.barkmap, 16); w.put(z.ampbits, 6); w.put(z.ampoff, 8); w.c(12).put((uint32_t)z.books.size() - 1, 4); for (int b : z.books) w.put(b, 8); }
    else { auto &o = f.f1; w.c(13).put(o.partitions, 5); for (int i = 0; i < o.partitions; i++) w.put(o.pclass[i], 4);
      w.c(14); for (int c = 0; c < o.nclass(); c++) { w.put(o.cdim[c] - 1, 3); w.put(o.csubs[c], 2); if (o.csubs[c]) w.put(o.cbook[c], 8); for (int k = 0; k < (1 << o.csubs[c]); k++) w.put((uint32_t)(o.csub[c][k] + 1), 8); }
      w.c(15).put(o.mult - 1, 2); w.put(o.rangebits, 4); w.c(16); for (size_t i = 2; i < o.X.size(); i++) w.put(o.X[i], o.rangebits); }
  }
  w.c(9).put((uint32_t)s.residues.size() - 1, 6);
  for (auto &r : s.residues) {
    w.c(17).put(r.type, 16); w.c(18).put(r.begin, 24); w.put(r.end, 24); w.put(r.psize - 1, 24); w.c(19).put(r.classes - 1, 6); w.put(r.classbook, 8);
    w.c(20); for (int i = 0; i < r.classes; i++) { int lo = r.cascade[i] & 7, hi = r.cascade[i] >> 3; w.put(lo, 3); w.put(hi ? 1 : 0, 1); if (hi) w.put(hi, 5); }
    w.c(21); for (int i = 0; i < r.classes; i++) for (int j = 0; j < 8; j++) if (r.cascade[i] & (1 << j)) w.put(r.books[i][j], 8);
  }
  w.c(9).put((uint32_t)s.mappings.size() - 1, 6);
  for (auto &m : s.mappings) {
    w.c(22).put(0, 16); w.put(m.submaps > 1 ? 1 : 0, 1); if (m.submaps > 1) w.put(m.submaps - 1, 4);
    w.c(23).put(m.mag.empty() ? 0 : 1, 1); if (!m.mag.empty()) { w.put((uint32_t)m.mag.size() - 1, 8); for (size_t i = 0; i < m.mag.size(); i++) { w.put(m.mag[i], ilog(s.channels - 1)); w.put(m.ang[i], ilog(s.channels - 1)); } }
    w.c(22).put(0, 2); w.c(24); if (m.submaps > 1) for (int c = 0; c < s.channels; c++) w.put(m.mux[c], 4);
    w.c(25); for (int i = 0; i < m.submaps; i++) { w.put(0, 8); w.put(m.sfloor[i], 8); w.put(m.sres[i], 8); }
  }
  w.c(9).put((uint32_t)s.modes.size() - 1, 6);
  w.c(26); for (auto &m : s.modes) { w.put(m.blockflag, 1); w.put(0, 16); w.put(0, 16); w.put(m.mapping, 8); }
  w.c(27).put(1, 1); return w.b;
}

// overwrite one logged field of a serialised header with a new value (LSb-first, like put)
static inline void patch_field(std::vector<uint8_t> &b, const Field &f, uint64_t v) { for (int i = 0; i < f.bits; i++) { size_t p = f.pos + i; if ((p >> 3) >= b.size()) return; if ((v >> i) & 1) b[p >> 3] |= (uint8_t)(1u << (p & 7)); else b[p >> 3] &= (uint8_t)~(1u << (p & 7)); } }

// ------------------------------------------------------------------------------------------------- strict header parsers (spec 4.2)
// Return an empty string on success, otherwise the reason the header is not a valid Vorbis I header.
static inline bool hdr_start(BitR &r, int type) { if (r.get(8) != (uint64_t)type) return false; const char *v = "vorbis"; for (int i = 0; i < 6; i++) if (r.get(8) != (uint64_t)(uint8_t)v[i]) return false; return !r.eop; }
static inline std::string parse_id(const std::vector<uint8_t> &p, Setup &s) {
  BitR r(p.data(), p.size()); if (!hdr_start(r, 1)) return "not an identification header";
  if (r.get(32) != 0) return "vorbis_version is not 0"; s.channels = (int)r.get(8); s.rate = (uint32_t)r.get(32);
  s.br_upper = (int32_t)r.get(32); s.br_nominal = (int32_t)r.get(32); s.br_lower = (int32_t)r.get(32); s.bs0log = (int)r.get(4); s.bs1log = (int)r.get(4);
  if (r.get(1) != 1 || r.eop) return "framing bit missing"; if (s.channels < 1) return "zero channels"; if (s.rate < 1) return "zero sample rate";
  if (s.bs0log < 6 || s.bs1log > 13 || s.bs0log > s.bs1log) return "illegal block sizes";
  if (r.pos + 7 < r.nbits) return "trailing bytes after the identification header"; return "";
}
static inline std::string parse_book(BitR &r, Book &b) {
  if (r.get(24) != 0x564342) return "codebook sync pattern"; b.dim = (int)r.get(16); b.entries = (int)r.get(24); b.ordered = r.get(1) != 0; b.sparse = false;
  if (r.eop) return "end of packet in codebook"; b.len.assign(b.entries, 0);
  if (!b.ordered) { b.sparse = r.get(1) != 0; for (int i = 0; i < b.entries; i++) { if (b.sparse && !r.get(1)) continue; b.len[i] = (uint8_t)(r.get(5) + 1); if (r.eop) return "end of packet in codebook lengths"; } }
  else { int cur = 0; int l = (int)r.get(5) + 1; while (cur < b.entries) { int n = (int)r.get(ilog(b.entries - cur)); if (r.eop) return "end of packet in ordered lengths"; if (cur + n > b.entries || l > 32) return "ordered length run overflows"; for (int i = 0; i < n; i++) b.len[cur++] = (uint8_t)l; l++; } }
  b.lookup = (int)r.get(4); if (b.lookup > 2) return "codebook lookup type > 2";
  b.mult.clear();
  if (b.lookup) { b.qmin = (uint32_t)r.get(32); b.qdelta = (uint32_t)r.get(32); b.qbits = (int)r.get(4) + 1; b.seqp = (int)r.get(1); int n = b.lookup == 1 ? lookup1_values(b.entries, b.dim) : b.entries * b.dim; for (int i = 0; i < n; i++) b.mult.push_back((uint32_t)r.get(b.qbits)); }
  if (r.eop) return "end of packet in codebook"; if (!b.build()) return "codebook length list is not a complete prefix code"; return "";
}
static inline std::string parse_setup(const std::vector<uint8_t> &p, Setup &s) {
  BitR r(p.data(), p.size()); if (!hdr_start(r, 5)) return "not a setup header";
  int nb = (int)r.get(8) + 1; s.books.assign(nb, Book()); for (int i = 0; i < nb; i++) { std::string e = parse_book(r, s.books[i]); if (!e.empty()) return e + " (book " + std::to_string(i) + ")"; }
  int nt = (int)r.get(6) + 1; for (int i = 0; i < nt; i++) if (r.get(16) != 0) return "nonzero time-domain transform placeholder";
  int nf = (int)r.get(6) + 1; s.floors.assign(nf, Floor());
  for (auto &f : s.floors) {
    f.type = (int)r.get(16); if (f.type > 1) return "floor type > 1";
    if (f.type == 0) { auto &z = f.f0; z.order = (int)r.get(8); z.rate = (int)r.get(16); z.barkmap = (int)r.get(16); z.ampbits = (int)r.get(6); z.ampoff = (int)r.get(8); int n = (int)r.get(4) + 1; z.books.clear(); for (int i = 0; i < n; i++) { int b = (int)r.get(8); if (b >= nb) return "floor 0 book out of range"; z.books.push_back(b); } }
    else { auto &o = f.f1; o.partitions = (int)r.get(5); for (int i = 0; i < o.partitions; i++) o.pclass[i] = (int)r.get(4);
      for (int c = 0; c < o.nclass(); c++) { o.cdim[c] = (int)r.get(3) + 1; o.csubs[c] = (int)r.get(2); o.cbook[c] = 0; if (o.csubs[c]) { o.cbook[c] = (int)r.get(8); if (o.cbook[c] >= nb) return "floor 1 master book out of range"; } for (int k = 0; k < (1 << o.csubs[c]); k++) { o.csub[c][k] = (int)r.get(8) - 1; if (o.csub[c][k] >= nb) return "floor 1 subclass book out of range"; } }
      o.mult = (int)r.get(2) + 1; o.rangebits = (int)r.get(4); o.X.assign(2, 0); o.X[1] = 1 << o.rangebits; for (int i = 0; i < o.partitions; i++) for (int j = 0; j < o.cdim[o.pclass[i]]; j++) o.X.push_back((int)r.get(o.rangebits));
      if (o.X.size() > 65) return "more than 65 floor 1 posts"; std::vector<int> t = o.X; std::sort(t.begin(), t.end()); for (size_t i = 1; i < t.size(); i++) if (t[i] == t[i - 1]) return "floor 1 X values are not unique"; }
    if (r.eop) return "end of packet in floor";
  }
  int nr = (int)r.get(6) + 1; s.residues.assign(nr, Residue());
  for (auto &q : s.residues) {
    q.type = (int)r.get(16); if (q.type > 2) return "residue type > 2"; q.begin = (int)r.get(24); q.end = (int)r.get(24); q.psize = (int)r.get(24) + 1; q.classes = (int)r.get(6) + 1; q.classbook = (int)r.get(8); if (q.classbook >= nb) return "residue classbook out of range";
    for (int i = 0; i < q.classes; i++) { int lo = (int)r.get(3), hi = 0; if (r.get(1)) hi = (int)r.get(5); q.cascade[i] = hi * 8 + lo; }
    for (int i = 0; i < q.classes; i++) for (int j = 0; j < 8; j++) { q.books[i][j] = -1; if (q.cascade[i] & (1 << j)) { q.books[i][j] = (int)r.get(8); if (q.books[i][j] >= nb) return "residue book out of range"; } }
    if (r.eop) return "end of packet in residue";
  }
  int nm = (int)r.get(6) + 1; s.mappings.assign(nm, Mapping());
  for (auto &m : s.mappings) {
    if (r.get(16) != 0) return "mapping type != 0"; m.submaps = r.get(1) ? (int)r.get(4) + 1 : 1; m.mag.clear(); m.ang.clear();
    if (r.get(1)) { int n = (int)r.get(8) + 1; for (int i = 0; i < n; i++) { int a = (int)r.get(ilog(s.channels - 1)), b = (int)r.get(ilog(s.channels - 1)); if (a == b || a >= s.channels || b >= s.channels) return "illegal coupling step"; m.mag.push_back(a); m.ang.push_back(b); } }
    if (r.get(2) != 0) return "mapping reserved field nonzero"; m.mux.assign(s.channels, 0); if (m.submaps > 1) for (int c = 0; c < s.channels; c++) { m.mux[c] = (int)r.get(4); if (m.mux[c] >= m.submaps) return "mux out of range"; }
    for (int i = 0; i < m.submaps; i++) { r.get(8); m.sfloor[i] = (int)r.get(8); m.sres[i] = (int)r.get(8); if (m.sfloor[i] >= nf || m.sres[i] >= nr) return "submap floor/residue out of range"; }
    if (r.eop) return "end of packet in mapping";
  }
  int nmo = (int)r.get(6) + 1; s.modes.assign(nmo, Mode());
  for (auto &m : s.modes) { m.blockflag = (int)r.get(1); if (r.get(16) != 0) return "mode windowtype != 0"; if (r.get(16) != 0) return "mode transformtype != 0"; m.mapping = (int)r.get(8); if (m.mapping >= nm) return "mode mapping out of range"; }
  if (r.get(1) != 1 || r.eop) return "setup framing bit missing"; if (r.pos + 7 < r.nbits) return "trailing bytes after the setup header"; return "";
}

// ------------------------------------------------------------------------------------------------- tables and transforms
static const double kInvDb[256] = {
#include "vspec_invdb.inc"
};

struct Vec { std::vector<double> v, e; void assign(size_t n) { v.assign(n, 0); e.assign(n, 0); } };

// window (4.3.1) for a block of size n with the given neighbour flags
static inline void make_window(int n, int bs0, bool longblock, bool prevlong, bool nextlong, std::vector<double> &w) {
  int lws, lwe, ln, rws, rwe, rn;
  if (longblock && !prevlong) { lws = n / 4 - bs0 / 4; lwe = n / 4 + bs0 / 4; ln = bs0 / 2; } else { lws = 0; lwe = n / 2; ln = n / 2; }
  if (longblock && !nextlong) { rws = n * 3 / 4 - bs0 / 4; rwe = n * 3 / 4 + bs0 / 4; rn = bs0 / 2; } else { rws = n / 2; rwe = n; rn = n / 2; }
  w.assign(n, 0.0);
  for (int i = lws; i < lwe; i++) { double s = sin(((i - lws) + 0.5) / ln * M_PI / 2); w[i] = sin(M_PI / 2 * s * s); }
  for (int i = lwe; i < rws; i++) w[i] = 1.0;
  for (int i = rws; i < rwe; i++) { double s = sin(((i - rws) + 0.5) / rn * M_PI / 2 + M_PI / 2); w[i] = sin(M_PI / 2 * s * s); }
}
// direct inverse MDCT (4.3.7 / the defining formula): y[t] = sum_k X[k] cos(pi/(2N) (2t+1+N/2)(2k+1)), N = block size
static inline void imdct(int N, const Vec &X, Vec &y) {
  static std::vector<std::vector<double>> tabs(16);
  int lg = ilog(N) - 1; std::vector<double> &tab = tabs[lg];
  if (tab.empty()) { tab.resize((size_t)4 * N); for (int m = 0; m < 4 * N; m++) tab[m] = cos(M_PI / (2.0 * N) * m); }
  int half = N / 2; y.assign(N);
  double l2 = 0, esum = 0; for (int k = 0; k < half; k++) { l2 += X.v[k] * X.v[k]; esum += X.e[k]; }
  double ebound = 32.0 * ilog(N) * EPSF * sqrt(l2) + esum;
  int kmax = 0; for (int k = 0; k < half; k++) if (X.v[k] != 0) kmax = k + 1;
  const double *xv = X.v.data(); const double *tb = tab.data(); const uint32_t mask = (uint32_t)(4 * N - 1);
  for (int t = 0; t < N; t++) {
    // angle index of bin k is a*(2k+1) mod 4N with a = 2t+1+N/2: start at a, step 2a
    uint32_t a = (uint32_t)(2 * t + 1 + half), idx = a & mask, step = (2 * a) & mask; double acc = 0;
    for (int k = 0; k < kmax; k++) { acc += xv[k] * tb[idx]; idx = (idx + step) & mask; }
    y.v[t] = acc; y.e[t] = ebound;
  }
}

// ------------------------------------------------------------------------------------------------- packet walk
struct SymIO {
  bool gen = false; BitR r; BitW w; Bulk rnd{1};
  uint64_t bits(int n, uint64_t genval) { if (gen) { w.put(genval, n); return genval; } return r.get(n); }
  // a codeword of book b in scalar context; generate mode picks a used entry below `limit` (limit < 0: any)
  int scalar(const Book &b, int limit = -1, int prefer = -1) {
    if (gen) {
      if (b.used.empty()) return -1;
      int e;
      if (prefer >= 0) e = prefer;
      else { size_t cnt = b.used.size(); if (limit >= 0) cnt = (size_t)(std::lower_bound(b.used.begin(), b.used.end(), limit) - b.used.begin()); if (cnt == 0) return -1; e = b.used[rnd.below((uint32_t)cnt)]; }
      w.put_msb(b.code[e], b.len[e]); return e;
    }
    if (b.used.empty()) { r.eop = true; return -1; }
    int node = 0; while (b.tree[node].entry < 0) { int bit = (int)r.get(1); if (r.eop) return -1; node = b.tree[node].c[bit]; if (node < 0) { r.eop = true; return -1; } }
    return b.tree[node].entry;
  }
};

struct PacketPlan { int mode = 0; int prevflag = 0, nextflag = 0; int unused_pct = 10; int zero_pct = 40; };   // generate mode only
struct Block { int W = 0, n = 0; bool prevlong = false, nextlong = false; std::vector<Vec> ch; bool ok = false; size_t bits_used = 0; std::string note; int used_floors = 0; bool res_nonzero = false; bool illcond = false; bool eop_in_residue = false; bool eop_in_floor = false; int mode = 0; };

struct Synth {
  const Setup &s; bool illcond = false; std::string illwhy; bool walk_only = false;   // walk_only: parse the packet (bit accounting) without synthesising audio
  void ill(const char *w) { if (!illcond) illwhy = w; illcond = true; }
    // set when a floor 0 curve or a magnitude makes the error bound uninformative
  explicit Synth(const Setup &st) : s(st) {}

  // ---- floor 1 (7.2.3, 7.2.4)
  static int render_point(int x0, int y0, int x1, int y1, int X) { int dy = y1 - y0, adx = x1 - x0, ady = abs(dy), err = ady * (X - x0), off = err / adx; return dy < 0 ? y0 - off : y0 + off; }
  static void render_line(int x0, int y0, int x1, int y1, std::vector<int> &v) {
    int dy = y1 - y0, adx = x1 - x0, ady = abs(dy), base = dy / adx, x = x0, y = y0, err = 0, sy = dy < 0 ? base - 1 : base + 1;
    ady = ady - abs(base) * adx; if (x >= 0 && x < (int)v.size()) v[x] = y;
    for (x = x0 + 1; x < x1; x++) { err += ady; if (err >= adx) { err -= adx; y += sy; } else y += base; if (x < (int)v.size()) v[x] = y; }
  }
  // returns false for 'unused'
  bool floor1(SymIO &io, const Floor1 &f, int n, const PacketPlan *pl, Vec &out) {
    static const int ranges[4] = {256, 128, 86, 64}; int range = ranges[f.mult - 1];
    int nz = (int)io.bits(1, io.gen ? (io.rnd.below(100) >= (uint32_t)pl->unused_pct ? 1 : 0) : 0);
    if (io.r.eop || !nz) return false;
    int values = (int)f.X.size(); std::vector<int> Y(values, 0), fin(values, 0); std::vector<char> flag(values, 0);
    // neighbours depend only on the X list
    auto lowN = [&](int i) { int best = -1; for (int j = 0; j < i; j++) if (f.X[j] < f.X[i] && (best < 0 || f.X[j] > f.X[best])) best = j; return best; };
    auto highN = [&](int i) { int best = -1; for (int j = 0; j < i; j++) if (f.X[j] > f.X[i] && (best < 0 || f.X[j] < f.X[best])) best = j; return best; };
    Y[0] = (int)io.bits(ilog(range - 1), io.gen ? io.rnd.below(range) : 0); Y[1] = (int)io.bits(ilog(range - 1), io.gen ? io.rnd.below(range) : 0);
    fin[0] = Y[0]; fin[1] = Y[1]; flag[0] = flag[1] = 1;
    int off = 2;
    for (int p = 0; p < f.partitions; p++) {
      int cls = f.pclass[p], cdim = f.cdim[cls], cbits = f.csubs[cls], csub = (1 << cbits) - 1, cval = 0;
      if (cbits > 0) { cval = io.scalar(s.books[f.cbook[cls]]); if (cval < 0) return false; }
      for (int j = 0; j < cdim; j++) {
        int book = f.csub[cls][cval & csub]; cval >>= cbits; int i = off + j;
        // step 1 of curve computation is interleaved here so that generate mode can keep final Y inside [0,range)
        int lo = lowN(i), hi = highN(i); int pred = render_point(f.X[lo], fin[lo], f.X[hi], fin[hi], f.X[i]);
        int highroom = range - pred, lowroom = pred, room = (highroom < lowroom ? highroom : lowroom) * 2;
        auto final_of = [&](int val) { if (!val) return pred; if (val >= room) return highroom > lowroom ? val - lowroom + pred : pred - val + highroom - 1; return (val & 1) ? pred - (val + 1) / 2 : pred + val / 2; };
        int val = 0;
        if (book >= 0) {
          if (io.gen) {
            const Book &b = s.books[book]; int pick = 0;
            if (io.rnd.below(100) >= (uint32_t)pl->zero_pct) for (int tries = 0; tries < 6; tries++) { int e = b.used[io.rnd.below((uint32_t)b.used.size())]; int fy = final_of(e); if (fy >= 0 && fy < range) { pick = e; break; } }
            val = io.scalar(b, -1, pick);
          } else { val = io.scalar(s.books[book]); if (val < 0) return false; }
        }
        Y[i] = val; fin[i] = final_of(val);
        if (val) { flag[lo] = flag[hi] = flag[i] = 1; } else flag[i] = 0;
      }
      off += cdim;
    }
    // step 2: curve synthesis
    std::vector<int> idx(values); for (int i = 0; i < values; i++) idx[i] = i; std::sort(idx.begin(), idx.end(), [&](int a, int b) { return f.X[a] < f.X[b]; });
    for (int i = 0; i < values; i++) if (fin[i] < 0 || fin[i] >= range) { ill("floor 1 final Y outside [0,range)"); }   // outside what a valid setup can produce: only counts are compared
    int maxx = std::max(n, f.X[idx[values - 1]] + 1); std::vector<int> fl(maxx, 0);
    int hx = 0, lx = 0, hy = 0, ly = fin[idx[0]] * f.mult;
    for (int i = 1; i < values; i++) if (flag[idx[i]]) { hy = fin[idx[i]] * f.mult; hx = f.X[idx[i]]; render_line(lx, ly, hx, hy, fl); lx = hx; ly = hy; }
    if (hx < n) render_line(hx, hy, n, hy, fl);
    out.assign(n); for (int i = 0; i < n; i++) { int y = fl[i]; if (y < 0 || y > 255) { ill("floor 1 curve outside the dB table"); y = y < 0 ? 0 : 255; } out.v[i] = kInvDb[y]; out.e[i] = 0; }
    return true;
  }

  // ---- floor 0 (6.2.2, 6.2.3)
  static double bark(double x) { return 13.1 * atan(.00074 * x) + 2.24 * atan(.0000000185 * x * x) + .0001 * x; }
  // p+q of 6.2.3 for bin i of an n-bin curve, with a bound `rel` on its relative single-precision error; `amb`: bark map value next to an integer
  void f0_sum(const Floor0 &f, const std::vector<double> &co, const std::vector<double> &ce, int n, int i, double &sum, double &rel, bool &amb) {
    double bnyq = bark(.5 * f.rate); double pre = bark((double)f.rate * i / (2.0 * n)) * f.barkmap / bnyq; double fr = pre - floor(pre);
    amb = i > 0 && pre < f.barkmap - 1 + 2e-4 && (fr < 2e-4 || fr > 1 - 2e-4);   // a single-precision evaluation may land in the neighbouring bin
    int map = (int)floor(pre); if (map > f.barkmap - 1) map = f.barkmap - 1;
    double om = M_PI * map / f.barkmap, cw = cos(om); double p, q, rp = 0, rq = 0;
    auto term = [&](int j, double &acc, double &r) { double c = cos(co[j]); double d = c - cw; double ad = 16 * EPSF + ce[j]; acc *= 4 * d * d; r += 2 * ad / (fabs(d) > 1e-300 ? fabs(d) : 1e-300) + 4 * EPSF; };
    if (f.order & 1) { p = 1 - cw * cw; q = 0.25; for (int j = 0; j <= (f.order - 3) / 2; j++) term(2 * j + 1, p, rp); for (int j = 0; j <= (f.order - 1) / 2; j++) term(2 * j, q, rq); rp += 8 * EPSF / std::max(1e-300, fabs(1 - cw * cw)); }   // 1-cos^2 (libvorbis: 4-w*w) cancels next to omega = 0 and pi just like 1-+cos in the even case
    else { p = (1 - cw) / 2; q = (1 + cw) / 2; for (int j = 0; j <= (f.order - 2) / 2; j++) term(2 * j + 1, p, rp); for (int j = 0; j <= (f.order - 2) / 2; j++) term(2 * j, q, rq); rp += 8 * EPSF / std::max(1e-300, fabs(1 - cw)); rq += 8 * EPSF / std::max(1e-300, fabs(1 + cw)); }
    sum = p + q; rel = sum > 0 ? (fabs(p) * rp + fabs(q) * rq) / sum + 2 * EPSF : 1;
  }
  void f0_coeffs(const Floor0 &f, const Book &b, const std::vector<int> &ents, std::vector<double> &co, std::vector<double> &ce) {
    double last = 0, elast = 0; co.clear(); ce.clear();
    for (int e : ents) { for (int j = 0; j < b.dim; j++) { double v = b.vq[(size_t)e * b.dim + j] + last; co.push_back(v); ce.push_back(b.vqerr[(size_t)e * b.dim + j] + elast + EPSF * fabs(v)); } last = co.back(); elast = ce.back(); }
  }
  bool floor0(SymIO &io, const Floor0 &f, int n, const PacketPlan *pl, Vec &out) {
    uint32_t maxamp = (1u << f.ampbits) - 1; int nbk = (int)f.books.size(); int amp = 0, bn = 0; std::vector<int> ents; std::vector<double> co, ce;
    if (io.gen) {
      if (io.rnd.below(100) < (uint32_t)pl->unused_pct) { io.bits(f.ampbits, 0); return false; }
      bn = (int)io.rnd.below((uint32_t)nbk); const Book &b = s.books[f.books[bn]]; int need = (f.order + b.dim - 1) / b.dim;
      // a few candidate coefficient sets; keep the best conditioned one (largest minimum of p+q over the curve)
      double minsum = -1;
      for (int attempt = 0; attempt < 4; attempt++) {
        std::vector<int> cand; for (int i = 0; i < need; i++) cand.push_back(b.used[io.rnd.below((uint32_t)b.used.size())]);
        std::vector<double> c2, e2; f0_coeffs(f, b, cand, c2, e2);
        double ms = 1e300; for (int i = 0; i < n; i++) { double sm, rl; bool am; f0_sum(f, c2, e2, n, i, sm, rl, am); if (sm < ms) ms = sm; }
        if (ms > minsum) { minsum = ms; ents = cand; co = c2; ce = e2; }
        if (minsum > 1e-3) break;
      }
      // choose the amplitude so that the curve stays in a sane range (the largest exponent is about +3)
      double lim = minsum > 0 ? (double)maxamp * sqrt(minsum) * (1 + 3 / (.11512925 * f.ampoff)) : 0; uint32_t top = lim >= 1 ? (uint32_t)std::min<double>(lim, maxamp) : 1;
      amp = 1 + (int)io.rnd.below(top); io.bits(f.ampbits, (uint64_t)amp); io.bits(ilog(nbk), (uint64_t)bn); for (int e : ents) io.scalar(b, -1, e);
    } else {
      amp = (int)io.r.get(f.ampbits); if (io.r.eop || amp <= 0) return false;
      bn = (int)io.r.get(ilog(nbk)); if (io.r.eop || bn >= nbk) return false;
      const Book &b = s.books[f.books[bn]]; int got = 0; while (got < f.order) { int e = io.scalar(b); if (e < 0) return false; ents.push_back(e); got += b.dim; }
      f0_coeffs(f, b, ents, co, ce);
    }
    out.assign(n);
    for (int i = 0; i < n; i++) {
      double sum, rel; bool amb; f0_sum(f, co, ce, n, i, sum, rel, amb); if (amb) ill("floor 0 bark map value next to an integer");
      double arg = (double)amp * f.ampoff / ((double)maxamp * sqrt(sum)); double ex = .11512925 * (arg - f.ampoff);
      double eex = .11512925 * (fabs(arg) * (0.5 * rel + 6 * EPSF) + 4 * EPSF * f.ampoff) + 4 * EPSF * fabs(ex);
      double v = exp(ex);
      if (!(sum > 0) || !std::isfinite(v) || eex > 0.02 || v > 1e15) { ill(!(sum > 0) || !std::isfinite(v) || v > 1e15 ? "floor 0 curve overflows" : "floor 0 evaluated next to an LSP root"); v = std::isfinite(v) ? v : 0; eex = 0; }
      out.v[i] = v; out.e[i] = v * (eex * 1.5 + 4 * EPSF);
    }
    return true;
  }

  // ---- residue (8.6.2 - 8.6.5).  vec: ch residue vectors of size n (n = blocksize/2); dnd: do-not-decode flags
  void add_vq(Vec &v, size_t pos, const Book &b, int e, int j) { double t = b.vq[(size_t)e * b.dim + j]; v.v[pos] += t; v.e[pos] += b.vqerr[(size_t)e * b.dim + j] + EPSF * fabs(v.v[pos]); }
  void residue(SymIO &io, const Residue &q, int n, std::vector<Vec *> &vec, const std::vector<char> &dnd) {
    int ch = (int)vec.size(); if (ch == 0) return;
    if (q.type == 2) {
      bool all = true; for (int j = 0; j < ch; j++) if (!dnd[j]) all = false; if (all) return;
      Vec il; il.assign((size_t)n * ch); std::vector<Vec *> one{&il}; std::vector<char> d1{0};
      residue_core(io, q, n * ch, one, d1, 1);
      for (int i = 0; i < n; i++) for (int j = 0; j < ch; j++) { vec[j]->v[i] += il.v[(size_t)i * ch + j]; vec[j]->e[i] += il.e[(size_t)i * ch + j]; }
      return;
    }
    residue_core(io, q, n, vec, dnd, q.type);
  }
  void residue_core(SymIO &io, const Residue &q, int actual, std::vector<Vec *> &vec, const std::vector<char> &dnd, int fmt) {
    int ch = (int)vec.size(); int lb = std::min(q.begin, actual), le = std::min(q.end, actual);
    const Book &cb = s.books[q.classbook]; int cw = cb.dim; int ntr = le - lb; if (ntr <= 0) return; int ptr = ntr / q.psize; if (ptr <= 0) return;
    int64_t partvals = 1; for (int i = 0; i < cw; i++) { partvals *= q.classes; if (partvals > (1 << 24)) break; }
    std::vector<std::vector<int>> cls(ch, std::vector<int>((size_t)ptr + cw, 0));
    for (int pass = 0; pass < 8; pass++) {
      int pc = 0;
      while (pc < ptr) {
        if (pass == 0) for (int j = 0; j < ch; j++) if (!dnd[j]) { int temp = io.scalar(cb, (int)std::min<int64_t>(partvals, 1 << 24)); if (temp < 0) return; for (int i = cw - 1; i >= 0; i--) { cls[j][i + pc] = temp % q.classes; temp /= q.classes; } }
        for (int i = 0; i < cw && pc < ptr; i++) {
          for (int j = 0; j < ch; j++) if (!dnd[j]) {
            int vqclass = cls[j][pc]; if (!(q.cascade[vqclass] & (1 << pass))) continue; const Book &b = s.books[q.books[vqclass][pass]];
            size_t offset = (size_t)lb + (size_t)pc * q.psize; Vec &v = *vec[j];
            if (fmt == 0) { int step = q.psize / b.dim; for (int a = 0; a < step; a++) { int e = io.scalar(b); if (e < 0) return; for (int d = 0; d < b.dim; d++) add_vq(v, offset + a + (size_t)d * step, b, e, d); } }
            else { int a = 0; do { int e = io.scalar(b); if (e < 0) return; for (int d = 0; d < b.dim; d++) { if (a < q.psize) add_vq(v, offset + a, b, e, d); a++; } } while (a < q.psize); }
          }
          pc++;
        }
      }
    }
  }

  // ---- one audio packet (4.3): returns false when the packet must be discarded (not audio / end of packet before the floors)
  bool packet(SymIO &io, const PacketPlan *pl, Block &out) {
    out.ok = false; illcond = false; illwhy.clear();
    if (io.bits(1, 0) != 0 || io.r.eop) { out.note = "not an audio packet"; return false; }
    int nm = (int)s.modes.size(); int mode = (int)io.bits(ilog(nm - 1), io.gen ? pl->mode : 0); if (io.r.eop || mode >= nm) { out.note = "bad mode"; return false; }
    const Mode &mo = s.modes[mode]; out.mode = mode; out.W = mo.blockflag; out.n = s.bs(out.W); int pf = 0, nf = 0;
    if (out.W) { pf = (int)io.bits(1, io.gen ? pl->prevflag : 0); nf = (int)io.bits(1, io.gen ? pl->nextflag : 0); if (io.r.eop) { out.note = "eop in window flags"; return false; } }
    out.prevlong = pf; out.nextlong = nf;
    const Mapping &mp = s.mappings[mo.mapping]; int C = s.channels, half = out.n / 2;
    std::vector<Vec> floorc(C), res(C); std::vector<char> nores(C, 0);
    bool eop_in_floor = false;
    for (int c = 0; c < C; c++) {
      const Floor &f = s.floors[mp.sfloor[mp.mux[c]]]; bool usedf = f.type == 0 ? floor0(io, f.f0, half, pl, floorc[c]) : floor1(io, f.f1, half, pl, floorc[c]);
      nores[c] = !usedf; if (io.r.eop) { eop_in_floor = true; break; }
    }
    out.ch.assign(C, Vec()); for (int c = 0; c < C; c++) out.ch[c].assign(out.n);
    out.eop_in_floor = eop_in_floor;
    if (eop_in_floor) { out.ok = true; out.note = "eop in floor: zero block"; out.bits_used = io.gen ? io.w.n : io.r.pos; return true; }
    std::vector<char> nr2 = nores;
    for (size_t i = 0; i < mp.mag.size(); i++) if (!nr2[mp.mag[i]] || !nr2[mp.ang[i]]) nr2[mp.mag[i]] = nr2[mp.ang[i]] = 0;
    for (int c = 0; c < C; c++) res[c].assign(half);
    for (int sm = 0; sm < mp.submaps; sm++) {
      std::vector<Vec *> bundle; std::vector<char> dnd; for (int c = 0; c < C; c++) if (mp.mux[c] == sm) { bundle.push_back(&res[c]); dnd.push_back(nr2[c]); }
      residue(io, s.residues[mp.sres[sm]], half, bundle, dnd);
    }
    out.eop_in_residue = io.r.eop; io.r.eop = false;   // end of packet during residue decode is nominal
    for (int i = (int)mp.mag.size() - 1; i >= 0; i--) {
      Vec &M = res[mp.mag[i]], &A = res[mp.ang[i]];
      for (int k = 0; k < half; k++) {
        double m = M.v[k], a = A.v[k], em = M.e[k], ea = A.e[k], nm2, na;
        if (m > 0) { if (a > 0) { nm2 = m; na = m - a; } else { na = m; nm2 = m + a; } } else { if (a > 0) { nm2 = m; na = m + a; } else { na = m; nm2 = m - a; } }
        // sign decisions within the error band cannot be predicted: widen the bound to cover both branches
        double slack = 0; if ((em > 0 && fabs(m) <= em) || (ea > 0 && fabs(a) <= ea)) slack = 2 * (fabs(m) + fabs(a) + em + ea);
        M.v[k] = nm2; A.v[k] = na; M.e[k] = em + ea + EPSF * fabs(nm2) + slack; A.e[k] = em + ea + EPSF * fabs(na) + slack;
      }
    }
    for (int c = 0; c < C && !walk_only; c++) {
      Vec X; X.assign(half);
      if (!nores[c]) for (int k = 0; k < half; k++) { double fv = floorc[c].v[k], rv = res[c].v[k]; X.v[k] = fv * rv; X.e[k] = fabs(fv) * res[c].e[k] + fabs(rv) * floorc[c].e[k] + floorc[c].e[k] * res[c].e[k] + EPSF * fabs(fv * rv); }
      Vec y; imdct(out.n, X, y);
      std::vector<double> w; make_window(out.n, s.bs(0), out.W, pf, nf, w);
      for (int t = 0; t < out.n; t++) { out.ch[c].v[t] = y.v[t] * w[t]; out.ch[c].e[t] = y.e[t] * w[t] + fabs(y.v[t]) * (w[t] * EPSF + 1.2e-7); }
    }
    for (int c = 0; c < C; c++) { if (!nores[c]) out.used_floors++; if (!nores[c]) for (int k = 0; k < half && !out.res_nonzero; k++) if (res[c].v[k] != 0) out.res_nonzero = true; }
    out.illcond = illcond;
    out.ok = true; out.bits_used = io.gen ? io.w.n : io.r.pos; return true;
  }
};

// overlap-add (4.3.8) and return counts (4.3.9): feeds windowed blocks, returns finished samples
struct Lapper {
  int channels; bool have_prev = false; Block prev;
  explicit Lapper(int c) : channels(c) {}
  void restart() { have_prev = false; }
  // appends (prev.n/4 + cur.n/4) samples per channel to out (none for the first block)
  int push(const Block &cur, std::vector<Vec> &out) {
    int produced = 0;
    if (have_prev) {
      int pn = prev.n, cn = cur.n, start = 3 * pn / 4 - cn / 4, from = pn / 2, to = 3 * pn / 4 + cn / 4; produced = to - from;
      for (int c = 0; c < channels; c++) for (int t = from; t < to; t++) {
        double v = 0, e = 0;
        if (t < pn) { v += prev.ch[c].v[t]; e += prev.ch[c].e[t]; }
        if (t >= start && t - start < cn) { v += cur.ch[c].v[t - start]; e += cur.ch[c].e[t - start]; }
        out[c].v.push_back(v); out[c].e.push_back(e + EPSF * fabs(v));
      }
    }
    prev = cur; have_prev = true; return produced;
  }
};

}  // namespace vs
