// Per-worker report: counts, measured set of distinct non-trivial cases, label distribution, samples.
#pragma once
#include <cstdint>
#include <cstdio>
#include <cstdlib>
#include <cstring>
#include <cstdarg>
#include <map>
#include <set>
#include <string>
#include <vector>

struct Report {
  long evaluations = 0;
  std::set<uint64_t> nontrivial;           // hashes of canonical non-trivial cases
  std::map<std::string, long> labels;      // generator distribution
  std::map<std::string, long> excluded;    // cases re-mapped away from open known findings
  std::map<std::string, double> metrics;   // max-type measurements (e.g. worst observed error)
  std::vector<std::string> samples;        // up to 8 readable cases
  std::string fail_msg;                    // set when the property body returns false
  std::string fail_kind;                   // "violation" or "harness"
  uint64_t out_hash = 0;                   // optional: hash of everything the case computed (compared across differently built binaries, C18)
  void label(const std::string &s, long n = 1) { labels[s] += n; }
  void exclude(const std::string &s) { excluded[s]++; }
  void metric_max(const std::string &s, double v) { auto it = metrics.find(s); if (it == metrics.end() || v > it->second) metrics[s] = v; }
  void nontriv(uint64_t h) { nontrivial.insert(h); }
  void sample(const std::string &s) { if (samples.size() < 8) samples.push_back(s); }
  bool want_sample() const { return samples.size() < 8; }
  bool fail(const char *fmt, ...) __attribute__((format(printf, 2, 3))) {
    char buf[2048]; va_list ap; va_start(ap, fmt); vsnprintf(buf, sizeof buf, fmt, ap); va_end(ap);
    fail_msg = buf; fail_kind = "violation"; return false;
  }
  bool harness(const char *fmt, ...) __attribute__((format(printf, 2, 3))) {
    char buf[2048]; va_list ap; va_start(ap, fmt); vsnprintf(buf, sizeof buf, fmt, ap); va_end(ap);
    fail_msg = buf; fail_kind = "harness"; return false;
  }
};

static inline std::string jesc(const std::string &s) {
  std::string o; o.reserve(s.size() + 8);
  for (unsigned char c : s) {
    if (c == '"') o += "\\\""; else if (c == '\\') o += "\\\\";
    else if (c == '\n') o += "\\n"; else if (c == '\t') o += "\\t";
    else if (c < 0x20 || c >= 0x7f) { char b[8]; snprintf(b, sizeof b, "\\u%04x", c); o += b; }
    else o += (char)c;
  }
  return o;
}
static inline std::string sfmt(const char *fmt, ...) __attribute__((format(printf, 1, 2)));
static inline std::string sfmt(const char *fmt, ...) {
  char buf[4096]; va_list ap; va_start(ap, fmt); vsnprintf(buf, sizeof buf, fmt, ap); va_end(ap); return buf;
}

// known-findings: ids of OPEN findings are passed by the driver in VERIF_KF_OPEN (comma separated)
static inline bool kf_open(const char *id) {
  const char *e = getenv("VERIF_KF_OPEN"); if (!e) return false;
  size_t n = strlen(id); const char *p = e;
  while ((p = strstr(p, id))) { if ((p == e || p[-1] == ',') && (p[n] == 0 || p[n] == ',')) return true; p += n; }
  return false;
}

// The property interface implemented by each props/cNN.cpp
struct Tape;
const char *prop_id();
bool prop_run(Tape &t, Report &r);   // true = held.  false => r.fail_msg / r.fail_kind set
