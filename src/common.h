// Shared harness pieces: packets, encoder driver, packet-level decoder, Ogg pager, in-memory data source.
#pragma once
#include <cerrno>
#include <cmath>
#include <cstdint>
#include <cstring>
#include <string>
#include <vector>
#include <functional>
#include <ogg/ogg.h>
#include <vorbis/codec.h>
#include <vorbis/vorbisenc.h>
#include <vorbis/vorbisfile.h>
#include "tape.h"
#include "report.h"
extern "C" int vorbis_bitrate_managed(vorbis_block *vb);   // lib/bitrate.h (exported by libvorbis, declared in a private header)

// ---------------------------------------------------------------------------------------------
struct Pkt {
  std::vector<uint8_t> data;
  int64_t granulepos = -1;
  bool bos = false, eos = false;
  int64_t packetno = 0;
  void to_ogg(ogg_packet &op) const {
    op.packet = (unsigned char *)data.data(); op.bytes = (long)data.size();
    op.b_o_s = bos; op.e_o_s = eos; op.granulepos = granulepos; op.packetno = packetno;
  }
  static Pkt from_ogg(const ogg_packet &op) {
    Pkt p; p.data.assign(op.packet, op.packet + op.bytes); p.granulepos = op.granulepos;
    p.bos = op.b_o_s != 0; p.eos = op.e_o_s != 0; p.packetno = op.packetno; return p;
  }
};

struct LStream {               // one logical Vorbis stream
  Pkt hdr[3];
  std::vector<Pkt> audio;
  int channels = 0; long rate = 0; int bs0 = 0, bs1 = 0;
  int32_t serial = 0;
  int64_t nsamples = 0;        // intended / declared length
  int64_t gp_offset = 0;       // granule position at which the link starts (spec A.2: a stream cut out of a longer one starts at a positive position)
  std::string desc;
};

typedef std::vector<std::vector<float>> PCM;   // [channel][sample]

// ---------------------------------------------------------------------------------------------
// Signal family (2.4).  All parameters come from the tape; bulk noise from Bulk(seed word).
struct Signal {
  int kind = 0;          // 0 silence 1 DC 2 multitone 3 sweep 4 noise 5 clicks 6 impulse 7 denormal 8 step
  double amp = 0.5;
  int partials = 1; double f[8] = {0}; uint32_t seed = 0; int period = 1000; int perchan = 0;
  std::string desc() const { return sfmt("sig{kind=%d amp=%g partials=%d f0=%.4f seed=%u period=%d perchan=%d}", kind, amp, partials, f[0], seed, period, perchan); }
  static Signal gen(Tape &t) {
    Signal s; s.kind = t.weighted({2, 1, 4, 2, 4, 2, 1, 1, 1});
    static const double amps[] = {0.5, 0.9, 1.0, 0.1, 0.01, 2.0, 10.0, 1000.0, 1e-4};
    s.amp = amps[t.weighted({6, 3, 3, 2, 1, 1, 1, 1, 1})];
    s.partials = 1 + t.below(8);
    for (int i = 0; i < 8; i++) s.f[i] = (1 + t.below(2000)) / 5000.0;   // fraction of Nyquist in (0,0.4]
    s.seed = t.raw() | 1; s.period = 50 + t.below(3000); s.perchan = t.below(2);
    return s;
  }
  // value of channel c at sample i (rate-independent: frequencies are fractions of Nyquist)
  void fill(int c, int64_t i0, int n, float *out, int64_t total) const {
    for (int k = 0; k < n; k++) {
      int64_t i = i0 + k; double v = 0;
      switch (kind) {
        case 0: v = 0; break;
        case 1: v = amp; break;
        case 2: { int np = partials; for (int p = 0; p < np; p++) { double fr = f[(p + (perchan ? c : 0)) & 7]; v += sin(M_PI * fr * (double)i + p); } v *= amp / np; } break;
        case 3: { double T = (double)(total > 1 ? total : 1); double ph = M_PI * 0.4 * (double)i * (double)i / (2 * T); v = amp * sin(ph + (perchan ? c : 0)); } break;
        case 4: { uint64_t h = mix64(((uint64_t)seed << 32) ^ (uint64_t)i ^ ((uint64_t)(perchan ? c : 0) << 56)); v = amp * (((double)(h >> 11) / 9007199254740992.0) * 2 - 1); } break;
        case 5: v = ((i + (perchan ? 17 * c : 0)) % period == 0) ? amp : 0; break;
        case 6: v = (i == (int64_t)(period % (total > 0 ? total : 1))) ? amp : 0; break;
        case 7: v = 1e-40; break;
        case 8: v = (i < total / 2) ? amp : -amp; break;
      }
      out[k] = (float)v;
    }
  }
};

// ---------------------------------------------------------------------------------------------
// Encoder driver
struct EncCfg {
  int channels = 1; long rate = 44100;
  int mode = 0;            // 0 vbr, 1 managed (vorbis_encode_init), 2 three-step with ctls
  float quality = 0.3f;
  long br_max = -1, br_nom = -1, br_min = -1;
  // optional ctl tweaks (mode 2)
  bool ctl_rm2 = false; ovectl_ratemanage2_arg rm2;
  bool ctl_rm2_null = false;       // RATEMANAGE2_SET NULL: turn management off
  bool ctl_lowpass = false; double lowpass_khz = 0;
  bool ctl_iblock = false; double iblock = 0;
  bool ctl_coupling = false; int coupling = 1;
  bool managed_base = false;       // mode 2: start from setup_managed instead of setup_vbr
  std::string desc() const {
    return sfmt("enc{ch=%d rate=%ld mode=%d q=%.2f br=%ld/%ld/%ld rm2=%d rm2null=%d lp=%d ib=%d cpl=%d/%d mb=%d}", channels, rate, mode, quality, br_max, br_nom, br_min,
                (int)ctl_rm2, (int)ctl_rm2_null, (int)ctl_lowpass, (int)ctl_iblock, (int)ctl_coupling, coupling, (int)managed_base);
  }
};

static const long kRates[] = {44100, 48000, 32000, 22050, 16000, 11025, 8000, 96000, 24000, 12000, 7999, 8001, 26000, 25999, 4000, 1000, 64000, 192000, 40000, 39999, 18999, 19000, 14999, 15000, 9000, 8999, 50000, 49999, 70000, 200000};

static inline EncCfg gen_enccfg(Tape &t, bool allow_managed = true, int maxch = 8) {
  EncCfg c;
  int chsel = t.weighted({4, 6, 1, 1, 1, 2, 1, 1, 1});
  static const int chs[] = {1, 2, 3, 4, 5, 6, 7, 8, 16};
  c.channels = chs[chsel]; if (c.channels > maxch) c.channels = 1 + (c.channels % maxch);
  c.rate = kRates[t.below(sizeof kRates / sizeof kRates[0])];
  c.mode = allow_managed ? t.weighted({6, 2, 2}) : 0;
  c.quality = (float)(t.range(-1, 10) / 10.0);
  if (c.mode == 1 || (c.mode == 2 && t.chance(1, 2))) {
    // managed: nominal per channel ~ 16..96 kbps scaled by rate
    double scale = (double)c.rate / 44100.0; if (scale < 0.2) scale = 0.2;
    long nom = (long)((32000 + 1000 * (long)t.below(64)) * scale) * (c.channels > 2 ? 2 : c.channels);
    int shape = t.weighted({3, 2, 2, 2, 1});   // nominal only, max only+nom, min+nom, both, CBR
    c.br_nom = nom; c.br_max = -1; c.br_min = -1;
    if (shape == 1 || shape == 3) c.br_max = nom + nom / (2 + (long)t.below(6));
    if (shape == 2 || shape == 3) c.br_min = nom - nom / (2 + (long)t.below(6));
    if (shape == 4) c.br_max = c.br_min = nom;
    if (c.mode == 2) c.managed_base = true;
  }
  if (c.mode == 2) {
    if (c.managed_base && t.chance(1, 3)) {
      c.ctl_rm2 = true;   // filled from GET then modified, see enc_setup
      c.rm2.bitrate_limit_reservoir_bits = 0; c.rm2.bitrate_limit_reservoir_bias = t.below(11) / 10.0;
      c.rm2.management_active = 1; c.rm2.bitrate_average_damping = 0.1 + t.below(50) / 10.0;
      c.rm2.bitrate_limit_min_kbps = (long)t.below(4);  // used as selector, see enc_setup
      c.rm2.bitrate_limit_max_kbps = (long)t.below(4);
      c.rm2.bitrate_average_kbps = (long)t.below(4);
    }
    if (t.chance(1, 4)) { c.ctl_lowpass = true; c.lowpass_khz = 2 + t.below(40) * 0.5; }
    if (t.chance(1, 4)) { c.ctl_iblock = true; c.iblock = -(double)t.below(16); }
    if (t.chance(1, 4)) { c.ctl_coupling = true; c.coupling = t.below(2); }
  }
  return c;
}

struct Encoder {
  vorbis_info vi; vorbis_comment vc; vorbis_dsp_state vd; vorbis_block vb;
  bool have_vi = false, have_vd = false, have_vb = false, have_vc = false;
  int setup_ret = 0;
  bool direct = false;     // take packets from vorbis_analysis(&vb,&op) itself (the documented non-managed output path) instead of the bitrate API
  long direct_packets = 0, direct_refused = 0;
  std::string err;
  ~Encoder() { clear(); }
  void clear() {
    if (have_vb) vorbis_block_clear(&vb); have_vb = false;
    if (have_vd) vorbis_dsp_clear(&vd); have_vd = false;
    if (have_vc) vorbis_comment_clear(&vc); have_vc = false;
    if (have_vi) vorbis_info_clear(&vi); have_vi = false;
  }
  // returns 0 on success; negative library code when the configuration is refused
  int setup(const EncCfg &c) {
    vorbis_info_init(&vi); have_vi = true;
    int ret;
    if (c.mode == 0) ret = vorbis_encode_init_vbr(&vi, c.channels, c.rate, c.quality);
    else if (c.mode == 1) ret = vorbis_encode_init(&vi, c.channels, c.rate, c.br_max, c.br_nom, c.br_min);
    else {
      if (c.managed_base) ret = vorbis_encode_setup_managed(&vi, c.channels, c.rate, c.br_max, c.br_nom, c.br_min);
      else ret = vorbis_encode_setup_vbr(&vi, c.channels, c.rate, c.quality);
      if (ret == 0) {
        if (c.ctl_rm2) {
          ovectl_ratemanage2_arg a; if (vorbis_encode_ctl(&vi, OV_ECTL_RATEMANAGE2_GET, &a) == 0) {
            a.bitrate_limit_reservoir_bias = c.rm2.bitrate_limit_reservoir_bias;
            a.bitrate_average_damping = c.rm2.bitrate_average_damping;
            // selectors: 0 keep, 1 halve reservoir, 2 double reservoir, 3 tiny reservoir
            switch (c.rm2.bitrate_limit_max_kbps) { case 1: a.bitrate_limit_reservoir_bits /= 2; break; case 2: a.bitrate_limit_reservoir_bits *= 2; break; case 3: a.bitrate_limit_reservoir_bits = a.bitrate_limit_reservoir_bits / 16 + 1; break; default: break; }
            vorbis_encode_ctl(&vi, OV_ECTL_RATEMANAGE2_SET, &a);
          }
        }
        if (c.ctl_rm2_null) vorbis_encode_ctl(&vi, OV_ECTL_RATEMANAGE2_SET, NULL);
        if (c.ctl_lowpass) { double v = c.lowpass_khz; vorbis_encode_ctl(&vi, OV_ECTL_LOWPASS_SET, &v); }
        if (c.ctl_iblock) { double v = c.iblock; vorbis_encode_ctl(&vi, OV_ECTL_IBLOCK_SET, &v); }
        if (c.ctl_coupling) { int v = c.coupling; vorbis_encode_ctl(&vi, OV_ECTL_COUPLING_SET, &v); }
        ret = vorbis_encode_setup_init(&vi);
      }
    }
    setup_ret = ret;
    if (ret != 0) { vorbis_info_clear(&vi); have_vi = false; return ret; }
    return 0;
  }
  int start(LStream &s, const std::vector<std::string> *comments = nullptr) {
    vorbis_comment_init(&vc); have_vc = true;
    if (comments) for (auto &c : *comments) vorbis_comment_add(&vc, c.c_str());
    if (vorbis_analysis_init(&vd, &vi) != 0) { err = "analysis_init failed"; return -1; }
    have_vd = true;
    if (vorbis_block_init(&vd, &vb) != 0) { err = "block_init failed"; return -1; }
    have_vb = true;
    ogg_packet h[3];
    int r = vorbis_analysis_headerout(&vd, &vc, &h[0], &h[1], &h[2]);
    if (r != 0) { err = sfmt("headerout=%d", r); return r; }
    for (int i = 0; i < 3; i++) s.hdr[i] = Pkt::from_ogg(h[i]);
    s.channels = vi.channels; s.rate = vi.rate;
    s.bs0 = vorbis_info_blocksize(&vi, 0); s.bs1 = vorbis_info_blocksize(&vi, 1);
    return 0;
  }
  // drain available blocks into s.audio; returns <0 on library error
  int drain(LStream &s) {
    int r;
    while ((r = vorbis_analysis_blockout(&vd, &vb)) == 1) {
      int a;
      if (direct) {
        ogg_packet dp; a = vorbis_analysis(&vb, &dp);
        if (!vorbis_bitrate_managed(&vb)) { if (a != 0) { err = sfmt("vorbis_analysis(packet)=%d", a); return -1; } s.audio.push_back(Pkt::from_ogg(dp)); direct_packets++; continue; }
        if (a != OV_EINVAL) { err = sfmt("vorbis_analysis(packet)=%d on a bitrate-managed encoder (OV_EINVAL documented)", a); return -1; }
        direct_refused++;   // the block has been analysed; its candidates go through the bitrate API as usual
      } else { a = vorbis_analysis(&vb, NULL); if (a != 0) { err = sfmt("vorbis_analysis=%d", a); return -1; } }
      a = vorbis_bitrate_addblock(&vb); if (a != 0) { err = sfmt("bitrate_addblock=%d", a); return -1; }
      ogg_packet op;
      while ((a = vorbis_bitrate_flushpacket(&vd, &op)) == 1) s.audio.push_back(Pkt::from_ogg(op));
      if (a < 0) { err = sfmt("flushpacket=%d", a); return -1; }
    }
    if (r < 0) { err = sfmt("blockout=%d", r); return -1; }
    return 0;
  }
};

// Feed N samples of `sig` in the given piece sizes (pieces sum to N) to a started encoder, then end of input.
static inline int enc_feed(Encoder &e, int channels, const Signal &sig, int64_t N, const std::vector<int> &pieces,
                           const std::vector<char> &drain_after, LStream &out, std::string &err) {
  int64_t done = 0;
  for (size_t i = 0; i < pieces.size(); i++) {
    int n = pieces[i]; if (n <= 0) continue;
    float **b = vorbis_analysis_buffer(&e.vd, n);
    for (int c = 0; c < channels; c++) sig.fill(c, done, n, b[c], N);
    if (vorbis_analysis_wrote(&e.vd, n) != 0) { err = "wrote failed"; return -1; }
    done += n;
    if (i >= drain_after.size() || drain_after[i]) if (e.drain(out) < 0) { err = e.err; return -1; }
  }
  if (vorbis_analysis_wrote(&e.vd, 0) != 0) { err = "wrote(0) failed"; return -1; }
  if (e.drain(out) < 0) { err = e.err; return -1; }
  out.nsamples = N;
  return 0;
}
static inline int encode_stream(const EncCfg &cfg, const Signal &sig, int64_t N, const std::vector<int> &pieces,
                                const std::vector<char> &drain_after, LStream &out, std::string &err,
                                const std::vector<std::string> *comments = nullptr) {
  Encoder e; int r = e.setup(cfg); if (r) { err = sfmt("setup=%d", r); return r; }
  r = e.start(out, comments); if (r) { err = e.err; return r < 0 ? r : -1; }
  r = enc_feed(e, cfg.channels, sig, N, pieces, drain_after, out, err); if (r) return r;
  out.desc = cfg.desc() + " " + sig.desc() + sfmt(" N=%lld", (long long)N);
  return 0;
}

static inline std::vector<int> gen_pieces(Tape &t, int64_t N, std::vector<char> &drain_after) {
  std::vector<int> p; drain_after.clear();
  int style = t.weighted({4, 2, 3, 1});   // all at once, fixed chunk, random chunks, 1-sample pieces (short N only)
  if (N == 0) return p;
  if (style == 0) p.push_back((int)N);
  else if (style == 1) { int c = 1 + t.below(5000); for (int64_t d = 0; d < N; d += c) p.push_back((int)std::min<int64_t>(c, N - d)); }
  else if (style == 2) { int64_t d = 0; while (d < N) { int c = 1 + (int)t.below(t.chance(1, 4) ? 60000 : 3000); c = (int)std::min<int64_t>(c, N - d); p.push_back(c); d += c; if (p.size() > 400) { p.push_back((int)(N - d)); break; } } }
  else { if (N <= 3000) for (int64_t d = 0; d < N; d++) p.push_back(1); else { int c = 1 + t.below(64); if (N / c > 6000) c = (int)(N / 6000) + 1;   /* tiny pieces of a long input only cost harness time (a realloc per call) */ for (int64_t d = 0; d < N; d += c) p.push_back((int)std::min<int64_t>(c, N - d)); } }
  int ds = t.weighted({3, 2, 1});   // drain after every write, random, only at end
  for (size_t i = 0; i < p.size(); i++) drain_after.push_back(ds == 0 ? 1 : ds == 1 ? (char)t.below(2) : 0);
  return p;
}

// ---------------------------------------------------------------------------------------------
// Packet-level decode of one logical stream (decoder_example.c call pattern)
struct DecodeResult {
  int hdr_ret[3] = {0, 0, 0}; int init_ret = 0;
  std::vector<int> synth_ret, blockin_ret, nout;   // per audio packet
  std::vector<long> bits_used;                     // oggpack_bits(&vb.opb) after synthesis
  PCM pcm; int channels = 0; long rate = 0;
  bool tail_sane = true;   // what lies in the decoder's buffer beyond the delivered audio (trimmed samples, the unfinished half block) is finite
  int64_t total() const { return pcm.empty() ? 0 : (int64_t)pcm[0].size(); }
};
static inline bool decode_packets(const LStream &s, DecodeResult &d, bool halfrate = false, size_t first_packet = 0) {
  vorbis_info vi; vorbis_comment vc; vorbis_info_init(&vi); vorbis_comment_init(&vc);
  bool ok = true;
  for (int i = 0; i < 3; i++) { ogg_packet op; s.hdr[i].to_ogg(op); d.hdr_ret[i] = vorbis_synthesis_headerin(&vi, &vc, &op); if (d.hdr_ret[i]) { ok = false; break; } }
  if (ok) {
    if (halfrate) vorbis_synthesis_halfrate(&vi, 1);
    vorbis_dsp_state vd; vorbis_block vb;
    d.init_ret = vorbis_synthesis_init(&vd, &vi);
    if (d.init_ret == 0) {
      vorbis_block_init(&vd, &vb);
      d.channels = vi.channels; d.rate = vi.rate; d.pcm.assign(vi.channels, {});
      for (size_t k = first_packet; k < s.audio.size(); k++) {
        ogg_packet op; s.audio[k].to_ogg(op);
        int sr = vorbis_synthesis(&vb, &op); d.synth_ret.push_back(sr);
        d.bits_used.push_back(sr == 0 ? oggpack_bits(&vb.opb) : -1);
        int br = -99, n = 0;
        if (sr == 0) {
          br = vorbis_synthesis_blockin(&vd, &vb);
          float **pcm; int m;
          while ((m = vorbis_synthesis_pcmout(&vd, &pcm)) > 0) { for (int c = 0; c < vi.channels; c++) d.pcm[c].insert(d.pcm[c].end(), pcm[c], pcm[c] + m); vorbis_synthesis_read(&vd, m); n += m; }
        }
        d.blockin_ret.push_back(br); d.nout.push_back(n);
      }
      { float **pcm; int m = vorbis_synthesis_lapout(&vd, &pcm); for (int c = 0; c < vi.channels && m > 0; c++) for (int i = 0; i < m; i++) if (!(fabsf(pcm[c][i]) < 1e18f)) d.tail_sane = false; }
      vorbis_block_clear(&vb); vorbis_dsp_clear(&vd);
    } else ok = false;
  }
  vorbis_comment_clear(&vc); vorbis_info_clear(&vi);
  return ok;
}

// ---------------------------------------------------------------------------------------------
// Ogg pager (own implementation; CRC via ogg_page_checksum_set)
struct PageInfo {
  int64_t offset = 0; int len = 0; int32_t serial = 0; int64_t granulepos = -1; int flags = 0;
  int first_pkt = -1, last_completed_pkt = -1;   // packet indices (within the logical stream: 0..2 headers, 3.. audio)
  int link = 0;
};
struct Layout {          // decoded from the tape
  int style = 0;         // 0: libogg-like defaults (fill pages to ~4k), 1: one packet per page, 2: random, 3: tiny segments/page, 4: max fill
  uint32_t seed = 0;     // Bulk seed for style 2 decisions
  int hdr_split = 0;     // 0: comment+setup share pages as they fall; 1: each header packet flushed to its own page(s)
  // style 5 (tape generation 4): the pages are cut by libogg itself (ogg_stream_packetin / flush / pageout, the calls of encoder_example.c)
  static Layout gen(Tape &t) { Layout l; l.style = g_tape_gen >= 4 ? t.weighted({4, 2, 4, 1, 1, 3}) : t.weighted({4, 2, 4, 1, 1}); l.seed = t.raw(); l.hdr_split = t.below(2); return l; }
  std::string desc() const { return sfmt("layout{style=%d seed=%u hs=%d}", style, seed, hdr_split); }
};

static inline void emit_page(std::vector<uint8_t> &out, int flags, int64_t gp, int32_t serial, uint32_t seq,
                             const std::vector<uint8_t> &lacing, const uint8_t *body, size_t bodylen) {
  size_t start = out.size();
  out.insert(out.end(), {'O', 'g', 'g', 'S', 0, (uint8_t)flags});
  for (int i = 0; i < 8; i++) out.push_back((uint8_t)((uint64_t)gp >> (8 * i)));
  for (int i = 0; i < 4; i++) out.push_back((uint8_t)((uint32_t)serial >> (8 * i)));
  for (int i = 0; i < 4; i++) out.push_back((uint8_t)(seq >> (8 * i)));
  for (int i = 0; i < 4; i++) out.push_back(0);
  out.push_back((uint8_t)lacing.size());
  out.insert(out.end(), lacing.begin(), lacing.end());
  out.insert(out.end(), body, body + bodylen);
  ogg_page og; og.header = out.data() + start; og.header_len = 27 + (long)lacing.size(); og.body = og.header + og.header_len; og.body_len = (long)bodylen;
  ogg_page_checksum_set(&og);
}

// The same job done by libogg (second pager, so that the harness pager is not a single point of trust): header packets flushed as
// encoder_example.c does, audio pages as ogg_stream_pageout cuts them (or flushed at tape-chosen packets).  The page table is rebuilt
// from the lacing values of the pages libogg returned.
static inline void page_stream_libogg(const LStream &s, const Layout &lay, std::vector<uint8_t> &out, std::vector<PageInfo> &pages, int link,
                                      bool set_eos) {
  ogg_stream_state os; ogg_stream_init(&os, s.serial);
  Bulk b(lay.seed | 1); int flush_pct = (lay.seed & 3) == 0 ? 0 : (lay.seed & 3) == 1 ? 5 : (lay.seed & 3) == 2 ? 30 : 100;
  size_t np = 3 + s.audio.size(); int pkts_started = 0, pkts_done = 0;
  auto take = [&](ogg_page &og) {
    PageInfo pi; pi.offset = (int64_t)out.size(); pi.serial = s.serial; pi.granulepos = ogg_page_granulepos(&og); pi.link = link;
    pi.flags = (ogg_page_continued(&og) ? 1 : 0) | (ogg_page_bos(&og) ? 2 : 0) | (ogg_page_eos(&og) ? 4 : 0);
    int nseg = og.header[26]; bool cont = ogg_page_continued(&og);
    pi.first_pkt = nseg ? (cont ? pkts_started - 1 : pkts_started) : -1;
    bool in_pkt = cont;
    for (int i = 0; i < nseg; i++) { if (!in_pkt) { pkts_started++; in_pkt = true; } if (og.header[27 + i] < 255) { pkts_done++; pi.last_completed_pkt = pkts_done - 1; in_pkt = false; } }
    out.insert(out.end(), og.header, og.header + og.header_len); out.insert(out.end(), og.body, og.body + og.body_len);
    pi.len = (int)(out.size() - pi.offset); pages.push_back(pi);
  };
  for (size_t i = 0; i < np; i++) {
    const Pkt &p = i < 3 ? s.hdr[i] : s.audio[i - 3];
    ogg_packet op; p.to_ogg(op); op.b_o_s = i == 0; op.e_o_s = (i + 1 == np && set_eos) ? 1 : 0; op.packetno = (ogg_int64_t)i;
    ogg_stream_packetin(&os, &op);
    ogg_page og;
    bool force = i == 0 || i == 2 || (lay.hdr_split && i == 1) || (s.gp_offset && i == 4) || i + 1 == np || (i > 2 && (int)b.below(100) < flush_pct);
    if (force) while (ogg_stream_flush(&os, &og)) take(og);
    else while (ogg_stream_pageout(&os, &og)) take(og);
  }
  ogg_stream_clear(&os);
}

// Append the pages of one logical stream to `out`.
static inline void page_stream(const LStream &s, const Layout &lay, std::vector<uint8_t> &out, std::vector<PageInfo> &pages, int link,
                               bool set_eos = true) {
  if (lay.style == 5) { page_stream_libogg(s, lay, out, pages, link, set_eos); return; }
  struct Seg { uint8_t len; int pkt; bool last; };
  std::vector<const Pkt *> pk; for (int i = 0; i < 3; i++) pk.push_back(&s.hdr[i]); for (auto &a : s.audio) pk.push_back(&a);
  Bulk b(lay.seed | 1);
  uint32_t seq = 0; size_t np = pk.size();
  std::vector<uint8_t> lacing, body; int64_t gp = -1; int first_pkt = -1, last_done = -1; bool cont = false; bool any_page = false;
  int target_segs = 255; size_t target_bytes = 4096;
  auto new_targets = [&]() {
    switch (lay.style) {
      case 0: target_segs = 255; target_bytes = 4096; break;
      case 1: target_segs = 255; target_bytes = 0; break;
      case 2: { int k = b.below(4); target_segs = k == 0 ? 1 + b.below(4) : k == 1 ? 1 + b.below(40) : 255; target_bytes = k == 3 ? 60000 : b.below(6000); } break;
      case 3: target_segs = 1 + b.below(3); target_bytes = 0; break;
      case 4: target_segs = 255; target_bytes = 70000; break;
    }
  };
  new_targets();
  auto flush = [&](bool final_page) {
    if (lacing.empty() && !final_page) return;
    if (lacing.empty()) return;
    int flags = (cont ? 1 : 0) | (!any_page ? 2 : 0) | ((final_page && set_eos) ? 4 : 0);
    PageInfo pi; pi.offset = (int64_t)out.size(); pi.serial = s.serial; pi.granulepos = gp; pi.flags = flags; pi.first_pkt = first_pkt; pi.last_completed_pkt = last_done; pi.link = link;
    emit_page(out, flags, gp, s.serial, seq++, lacing, body.data(), body.size());
    pi.len = (int)(out.size() - pi.offset); pages.push_back(pi);
    any_page = true; lacing.clear(); body.clear(); gp = -1; first_pkt = -1; last_done = -1; new_targets();
  };
  for (size_t i = 0; i < np; i++) {
    const Pkt &p = *pk[i]; size_t off = 0, n = p.data.size();
    bool started = false;
    for (;;) {
      size_t l = std::min<size_t>(255, n - off);
      if (lacing.empty()) { cont = started; }
      if (first_pkt < 0) first_pkt = (int)i;
      lacing.push_back((uint8_t)l); body.insert(body.end(), p.data.begin() + off, p.data.begin() + off + l); off += l; started = true;
      bool pkt_done = l < 255;
      if (pkt_done) { gp = p.granulepos; last_done = (int)i; }
      bool last_pkt = pkt_done && i + 1 == np;
      if (last_pkt) { flush(true); break; }
      bool must = (int)lacing.size() >= 255 || (int)lacing.size() >= target_segs;
      bool hdr_boundary = pkt_done && (i == 0 || i == 2 || (lay.hdr_split && i == 1) || (s.gp_offset && i == 4));   // a non-zero start: the second audio packet must end its page (A.2)
      bool soft = pkt_done && body.size() >= target_bytes;
      if (must || hdr_boundary || soft) flush(false);
      if (pkt_done) break;
    }
  }
}

struct Chain {
  std::vector<LStream> links;
  std::vector<uint8_t> bytes;
  std::vector<PageInfo> pages;
  std::vector<int64_t> link_start, link_end;   // byte ranges
};
static inline void build_chain(Chain &c, const std::vector<Layout> &lays) {
  c.bytes.clear(); c.pages.clear(); c.link_start.clear(); c.link_end.clear();
  for (size_t i = 0; i < c.links.size(); i++) {
    c.link_start.push_back((int64_t)c.bytes.size());
    page_stream(c.links[i], lays[i < lays.size() ? i : lays.size() - 1], c.bytes, c.pages, (int)i);
    c.link_end.push_back((int64_t)c.bytes.size());
  }
}

// ---------------------------------------------------------------------------------------------
// Instrumented in-memory data source (2.5)
struct MemSrc {
  const std::vector<uint8_t> *data = nullptr;
  int64_t pos = 0;
  // read-size schedule: 0 = exact, 1 = always one byte, 2 = pseudo-random 1..requested
  int read_mode = 0; Bulk sched{1};
  // fault injection
  enum Fault { NONE = 0, READ_ERR, READ_ZERO, SEEK_FAIL, TELL_FAIL };
  int fault_kind = NONE; long fault_at = -1; long fault_len = 1;   // invocations [fault_at, fault_at+fault_len)
  bool faults_enabled = true;
  long calls = 0, closes = 0, reads = 0, seeks = 0, tells = 0, bytes_served = 0;
  long faults_hit = 0; long budget = -1; bool budget_blown = false;
  long call_mark = 0;        // calls at the start of the current API call
  bool in_fault(int kind) {
    if (!faults_enabled || fault_kind != kind) return false;
    long idx = calls - 1;
    if (idx >= fault_at && idx < fault_at + fault_len) { faults_hit++; return true; }
    return false;
  }
  void mark() { call_mark = calls; }
  long since_mark() const { return calls - call_mark; }
};
static inline void memsrc_budget(MemSrc *m) {
  if (m->budget >= 0 && m->calls - m->call_mark > m->budget) {
    m->budget_blown = true;
    // an unbounded loop: report and leave the process with a distinctive status (the driver maps it to a violation)
    fprintf(stderr, "WORK-BUDGET exceeded: %ld callback invocations in one API call (budget %ld)\n", m->calls - m->call_mark, m->budget);
    fflush(stderr); _Exit(97);
  }
}
static inline size_t ms_read(void *ptr, size_t size, size_t nmemb, void *ds) {
  MemSrc *m = (MemSrc *)ds; m->calls++; m->reads++; memsrc_budget(m);
  if (m->in_fault(MemSrc::READ_ERR)) { errno = EIO; return 0; }
  if (m->in_fault(MemSrc::READ_ZERO)) { errno = 0; return 0; }
  size_t want = size * nmemb; int64_t avail = (int64_t)m->data->size() - m->pos; if (avail < 0) avail = 0;
  size_t n = (size_t)std::min<int64_t>((int64_t)want, avail);
  if (n > 0) { if (m->read_mode == 1) n = 1; else if (m->read_mode == 2) n = 1 + m->sched.below((uint32_t)n); }
  if (n) memcpy(ptr, m->data->data() + m->pos, n);
  m->pos += (int64_t)n; m->bytes_served += (long)n; errno = 0;
  return size ? n / size : 0;
}
static inline int ms_seek(void *ds, ogg_int64_t off, int whence) {
  MemSrc *m = (MemSrc *)ds; m->calls++; m->seeks++; memsrc_budget(m);
  if (m->in_fault(MemSrc::SEEK_FAIL)) return -1;
  int64_t np = whence == SEEK_SET ? off : whence == SEEK_CUR ? m->pos + off : (int64_t)m->data->size() + off;
  if (np < 0) return -1;
  m->pos = np; return 0;
}
static inline long ms_tell(void *ds) {
  MemSrc *m = (MemSrc *)ds; m->calls++; m->tells++; memsrc_budget(m);
  if (m->in_fault(MemSrc::TELL_FAIL)) return -1;
  return (long)m->pos;
}
static inline int ms_close(void *ds) { MemSrc *m = (MemSrc *)ds; m->closes++; return 0; }
static inline ov_callbacks ms_callbacks(bool seekable = true, bool with_close = true) {
  ov_callbacks cb; cb.read_func = ms_read; cb.seek_func = seekable ? ms_seek : nullptr; cb.tell_func = seekable ? ms_tell : nullptr; cb.close_func = with_close ? ms_close : nullptr; return cb;
}
static inline int ms_seek_fail(void *, ogg_int64_t, int) { return -1; }

// Read everything from the current position with ov_read_float; records negative returns.
struct ReadAll { PCM pcm; std::vector<int> link_of_sample_run; std::vector<std::pair<int, long>> runs; std::vector<long> negatives; int channels = 0; };
static inline void vf_read_all(OggVorbis_File *vf, std::vector<PCM> &per_link, std::vector<long> &negatives, int maxreq = 4096, Bulk *reqs = nullptr, long maxcalls = 10000000) {
  for (long it = 0; it < maxcalls; it++) {
    float **pcm; int bs = -1;
    int req = reqs ? 1 + (int)reqs->below((uint32_t)maxreq) : maxreq;
    long r = ov_read_float(vf, &pcm, req, &bs);
    if (r == 0) break;
    if (r < 0) { negatives.push_back(r); if (negatives.size() > 64) break; continue; }
    if (bs < 0) bs = 0;
    if ((size_t)bs >= per_link.size()) per_link.resize(bs + 1);
    vorbis_info *vi = ov_info(vf, -1);   // current link
    int ch = vi ? vi->channels : 0;
    if (per_link[bs].empty()) per_link[bs].assign(ch, {});
    for (int c = 0; c < ch && c < (int)per_link[bs].size(); c++) per_link[bs][c].insert(per_link[bs][c].end(), pcm[c], pcm[c] + r);
  }
}

// what ov_read must produce for one float sample in 16-bit signed host order: scale (in float), round to nearest, clip
static inline int expect_i16(float x) { double v = (double)(x * 32768.f); double rr = nearbyint(v); if (rr > 32767) rr = 32767; if (rr < -32768) rr = -32768; return (int)rr; }

static inline bool pcm_equal(const PCM &a, const PCM &b, std::string *why = nullptr) {
  if (a.size() != b.size()) { if (why) *why = sfmt("channels %zu vs %zu", a.size(), b.size()); return false; }
  for (size_t c = 0; c < a.size(); c++) {
    if (a[c].size() != b[c].size()) { if (why) *why = sfmt("ch%zu length %zu vs %zu", c, a[c].size(), b[c].size()); return false; }
    if (a[c].size() && memcmp(a[c].data(), b[c].data(), a[c].size() * sizeof(float))) {
      size_t i = 0; while (i < a[c].size() && !memcmp(&a[c][i], &b[c][i], sizeof(float))) i++;
      if (why) *why = sfmt("ch%zu sample %zu: %.9g vs %.9g", c, i, a[c][i], b[c][i]); return false;
    }
  }
  return true;
}
