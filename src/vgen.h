// vgen: constructs complete, valid Vorbis I streams from a tape, using every feature the format allows (DESIGN.md 3.1 / 3.3).
// Setup headers are built by construction (never by rejection); audio packets are produced by running the specification-level
// packet walk of vspec.h in generate mode, so every packet is complete and decodable.
#pragma once
#include "vspec.h"
#include "common.h"

namespace vg {
using namespace vs;

struct GenOpts {
  int maxch = 8; int min_bslog = 6, max_bslog = 13; bool allow_floor0 = true; bool allow_res2_odd = false;   // allow_res2_odd: residue 2 partition sizes that are not multiples of the bundle size
  int qbits_max = 16; double big = 0;     // big > 0: VQ magnitudes scaled up (decoded values far outside +-1)
  bool simple = false;                    // small setups (vorbisfile stream source): few books, no huge tables
  int force_bs0log = -1, force_bs1log = -1;
  int huge_book_log = 0;                  // > 0: the first codebook is an ordered book with 2^k entries, all of length k (decoder table limits)
};

struct SetupGen {
  Tape &t; const GenOpts &o; Setup s; std::vector<std::string> feat;
  SetupGen(Tape &tp, const GenOpts &op) : t(tp), o(op) {}
  void F(const char *f) { std::string x(f); if (std::find(feat.begin(), feat.end(), x) == feat.end()) feat.push_back(x); }

  // lengths of a complete prefix code with n codewords (n >= 2), depth <= 32
  std::vector<int> code_lengths(int n) {
    std::vector<int> d{1, 1}; int shape = t.below(3);
    while ((int)d.size() < n) {
      size_t i;
      if (shape == 0) i = t.spread((uint32_t)d.size());                 // random tree
      else if (shape == 1) i = d.size() - 1;                              // degenerate (long codes)
      else { i = 0; for (size_t k = 1; k < d.size(); k++) if (d[k] < d[i]) i = k; }   // balanced
      if (d[i] >= 32) { i = 0; for (size_t k = 1; k < d.size(); k++) if (d[k] < d[i]) i = k; }
      int nd = d[i] + 1; d[i] = nd; d.push_back(nd);
    }
    return d;
  }
  // fill length list / storage flavour for a book with `nused` used entries; need0: entry 0 must be used; below: all used entries < below (or -1)
  void fill_lengths(Book &b, int nused, bool need0, int below, int min_entries) {
    int flavour = t.weighted({3, 2, 2});   // unordered dense, ordered, sparse
    if (nused == 1) { flavour = t.below(2) ? 2 : 0; }
    std::vector<int> L = nused == 1 ? std::vector<int>{1} : code_lengths(nused);
    if (flavour == 1 && nused >= min_entries) {
      std::sort(L.begin(), L.end()); b.entries = nused; b.ordered = true; b.len.assign(L.begin(), L.end()); F("book: ordered"); if (nused == 1) F("book: single entry"); return;
    }
    if (flavour == 2 || nused < min_entries) {
      int span = below > 0 ? below : nused + 1 + (int)t.below((uint32_t)nused + 8);
      if (span < nused) span = nused; int entries = std::max(span, min_entries); if (below > 0 && entries < below) entries = below + (int)t.below(4);
      b.entries = entries; b.ordered = false; b.sparse = true; b.len.assign(entries, 0);
      // choose nused distinct positions in [0,span)
      std::vector<int> pos; for (int i = 0; i < span; i++) pos.push_back(i);
      Bulk sh(t.raw() | 1); for (int i = span - 1; i > 0; i--) std::swap(pos[i], pos[sh.below((uint32_t)i + 1)]);
      pos.resize(nused); if (need0 && std::find(pos.begin(), pos.end(), 0) == pos.end()) pos[0] = 0;
      for (int i = 0; i < nused; i++) b.len[pos[i]] = (uint8_t)L[i];
      F("book: sparse"); if (nused == 1) F("book: single entry"); return;
    }
    b.entries = nused; b.ordered = false; b.sparse = false; Bulk sh(t.raw() | 1); for (int i = nused - 1; i > 0; i--) std::swap(L[i], L[sh.below((uint32_t)i + 1)]);
    b.len.assign(L.begin(), L.end()); if (nused == 1) F("book: single entry");
  }
  int push_book(Book &b) { if (!b.build()) { /* cannot happen by construction */ b.len.assign(b.entries, 0); b.len[0] = 1; b.ordered = false; b.sparse = true; b.build(); } s.books.push_back(b); return (int)s.books.size() - 1; }
  bool room() const { return s.books.size() < 250; }

  // scalar-context book (floor 1 master / subclass books, residue classbooks)
  int scalar_book(int nused, bool need0, int below, int min_entries, int dim = 1) {
    if (!room()) { for (size_t i = 0; i < s.books.size(); i++) { const Book &b = s.books[i]; if (b.dim == dim && b.entries >= min_entries && (!need0 || b.len[0]) && (below < 0 || b.used.back() < below)) return (int)i; } }
    Book b; b.dim = dim; if (below > 0 && nused > below) nused = below; if (nused < 1) nused = 1;
    fill_lengths(b, nused, need0, below, min_entries); b.lookup = 0; F("book: no lookup (scalar only)");
    return push_book(b);
  }
  static uint32_t pack_float(int mant, int shift, bool neg) { return (neg ? 0x80000000u : 0u) | ((uint32_t)(788 + shift) << 21) | (uint32_t)(mant & 0x1fffff); }
  // VQ book of the given dimension.  kind 0: residue values (centred), 1: floor 0 LSP coefficients (ascending angles)
  int vq_book(int dim, int kind) {
    if (!room()) { for (size_t i = 0; i < s.books.size(); i++) if (s.books[i].lookup && s.books[i].dim == dim) return (int)i; }
    Book b; b.dim = dim; b.lookup = 1 + t.below(2);
    int nused;
    if (b.lookup == 1) {
      int lv = 1 + t.weighted({2, 4, 4, 2, 1, 1}); int64_t e = 1; for (;;) { e = 1; bool big = false; for (int i = 0; i < dim; i++) { e *= lv; if (e > (o.simple ? 300 : 1500)) { big = true; break; } } if (!big || lv == 1) break; lv--; }
      if (lv == 1) e = 1; int entries = (int)e + (t.chance(1, 4) ? (int)t.below(3) : 0); nused = entries; F("book: lattice (lookup 1)"); if (entries != e) F("book: lattice with entries not a perfect power");
    } else { nused = 1 + (int)t.below(o.simple ? 12 : 40); F("book: explicit values (lookup 2)"); }
    if (t.chance(1, 5) && nused > 2) { int keep = 1 + (int)t.below((uint32_t)nused); fill_lengths(b, keep, false, nused, nused); }   // some entries unused
    else fill_lengths(b, nused, false, -1, nused);
    b.lvals = b.lookup == 1 ? lookup1_values(b.entries, b.dim) : b.entries * b.dim;
    b.qbits = 1 + t.weighted({2, 4, 4, 3, 2, 1, 1, 1}); if (t.chance(1, 12)) b.qbits = 1 + t.below((uint32_t)o.qbits_max); if (b.qbits > o.qbits_max) b.qbits = o.qbits_max;
    b.seqp = kind == 1 ? (t.below(4) != 0) : t.chance(1, 4); if (b.seqp) F("book: sequence_p");
    uint32_t maxm = (1u << b.qbits) - 1; Bulk mv(t.raw() | 1);
    for (int i = 0; i < b.lvals; i++) b.mult.push_back(mv.below(maxm + 1));
    int dm = 1 + t.below(255), ds = -(int)(2 + t.below(9)) - b.qbits / 2;   // delta = dm * 2^ds
    if (kind == 1) {   // LSP-like angles: the largest multiplicand reaches 0.3 .. 3 radians so that coefficients spread over (0, pi)
      double target = (0.3 + 2.7 * t.below(11) / 10.0) / (b.seqp ? std::max(1, dim / 2) : 1), delta = target / (double)std::max<uint32_t>(1, maxm);
      ds = (int)floor(log2(delta)) - 7; dm = (int)(delta / ldexp(1.0, ds)); if (dm < 1) dm = 1; if (dm > 255) dm = 255;
      b.qdelta = pack_float(dm, ds, false); b.qmin = pack_float((int)t.below(300), -10, false);
    }
    else {
      if (o.big > 0) ds += (int)o.big;
      b.qdelta = pack_float(dm, ds, t.chance(1, 10));
      double delta = ldexp((double)dm, ds), centre = delta * maxm / 2; int cm = 0, cs = ds;
      // min ~ -centre (so values are roughly symmetric), expressed with a mantissa < 2^21
      double want = centre * (0.5 + t.below(11) / 10.0); cs = ds; while (want / ldexp(1.0, cs) >= 2097151.0) cs++; cm = (int)(want / ldexp(1.0, cs));
      b.qmin = pack_float(cm, cs, !t.chance(1, 8));
    }
    return push_book(b);
  }

  int gen_floor1(int halfmax) {
    Floor f; f.type = 1; Floor1 &o1 = f.f1; F("floor 1");
    o1.partitions = t.weighted({1, 3, 3, 3, 2, 2, 1, 1}); if (t.chance(1, 30)) o1.partitions = 31; if (o.simple && o1.partitions > 4) o1.partitions = 4;
    int ncls = o1.partitions ? 1 + (int)t.below((uint32_t)std::min(o1.partitions, t.chance(1, 10) ? 16 : 3)) : 0;
    for (int i = 0; i < o1.partitions; i++) o1.pclass[i] = (int)t.below((uint32_t)ncls);
    if (o1.partitions) o1.pclass[t.below((uint32_t)o1.partitions)] = ncls - 1;   // the highest class number must occur
    ncls = o1.nclass();
    o1.mult = 1 + t.below(4); static const int ranges[4] = {256, 128, 86, 64}; int range = ranges[o1.mult - 1];
    int posts = 0;
    for (int c = 0; c < ncls; c++) {
      int uses = 0; for (int i = 0; i < o1.partitions; i++) if (o1.pclass[i] == c) uses++;
      int maxd = uses ? std::max(1, std::min(8, (63 - posts - (ncls - c - 1) * 31) / uses)) : 8;   // VIF_POSIT: at most 63 posts beyond the two implicit ones
      if (maxd < 1) maxd = 1; o1.cdim[c] = 1 + (int)t.below((uint32_t)std::min(maxd, t.chance(1, 6) ? 8 : 3)); posts += uses * o1.cdim[c];
      o1.csubs[c] = t.weighted({3, 3, 2, 1}); o1.cbook[c] = 0;
      if (o1.csubs[c]) o1.cbook[c] = scalar_book(1 + (int)t.below(t.chance(1, 4) ? 70 : 8), false, -1, 1, t.chance(1, 5) ? 1 + (int)t.below(4) : 1);
      for (int k = 0; k < (1 << o1.csubs[c]); k++) { if (t.chance(1, 4)) { o1.csub[c][k] = -1; F("floor 1: subclass without book"); } else o1.csub[c][k] = scalar_book(1 + (int)t.below(t.chance(1, 4) ? (uint32_t)range : 12), true, t.chance(1, 3) ? range : -1, 1); }
    }
    while (posts > 63) { for (int c = 0; c < ncls && posts > 63; c++) if (o1.cdim[c] > 1) { int uses = 0; for (int i = 0; i < o1.partitions; i++) if (o1.pclass[i] == c) uses++; o1.cdim[c]--; posts -= uses; } }
    int rb = ilog(halfmax) - 1 + (int)t.below(3) - 1; if (t.chance(1, 8)) rb = 1 + (int)t.below(15); while ((1 << rb) - 1 < posts) rb++; if (rb > 15) rb = 15; o1.rangebits = rb;
    o1.X.assign(2, 0); o1.X[1] = 1 << rb;
    // unique X values in [1, 2^rb - 1]
    { std::vector<char> seen; int span = (1 << rb) - 1; Bulk xs(t.raw() | 1); std::vector<int> xsv;
      if (span <= 4096) { std::vector<int> all; for (int i = 1; i <= span; i++) all.push_back(i); for (int i = 0; i < posts; i++) { uint32_t j = i + xs.below((uint32_t)(all.size() - i)); std::swap(all[i], all[j]); xsv.push_back(all[i]); } }
      else { while ((int)xsv.size() < posts) { int x = 1 + (int)xs.below((uint32_t)span); if (std::find(xsv.begin(), xsv.end(), x) == xsv.end()) xsv.push_back(x); } }
      for (int x : xsv) o1.X.push_back(x); }
    if ((1 << rb) > halfmax) F("floor 1: X beyond n/2");
    s.floors.push_back(f); return (int)s.floors.size() - 1;
  }
  int gen_floor0() {
    Floor f; f.type = 0; Floor0 &z = f.f0; F("floor 0");
    z.order = 1 + t.weighted({1, 2, 3, 3, 2, 2, 1, 1, 1, 1}) * (t.chance(1, 6) ? 3 : 1) + (int)t.below(2); if (z.order > 255) z.order = 255; if (t.chance(1, 25)) z.order = 32 + t.below(60);
    z.rate = t.chance(1, 2) ? (int)std::min<uint32_t>(s.rate, 65535) : 1 + (int)t.below(65535); if (z.rate < 1) z.rate = 1;
    z.barkmap = 1 + (int)t.below(t.chance(1, 3) ? 2000 : 256); z.ampbits = 8 - (int)t.weighted({4, 3, 2, 1, 1, 1, 1, 1}); if (t.chance(1, 20)) z.ampbits = 1 + t.below(24); z.ampoff = 1 + (int)t.below(t.chance(1, 4) ? 255 : 120);
    int nb = 1 + t.weighted({5, 2, 1, 1}); if (t.chance(1, 20)) nb = 16;
    for (int i = 0; i < nb; i++) z.books.push_back(vq_book(1 + (int)t.below(t.chance(1, 5) ? 8 : 4), 1));
    s.floors.push_back(f); return (int)s.floors.size() - 1;
  }
  int gen_residue(int bundle, int halfmax) {
    Residue q; q.type = (int)t.below(3); F(q.type == 0 ? "residue 0" : q.type == 1 ? "residue 1" : "residue 2");
    int actual = halfmax * (q.type == 2 ? std::max(1, bundle) : 1);
    static const int psz[] = {8, 16, 4, 32, 2, 12, 24, 6, 64, 1, 10, 3, 128, 20};
    q.psize = psz[t.weighted({5, 5, 3, 3, 2, 2, 1, 2, 1, 1, 1, 1, 1, 1})];
    if (q.type == 2 && !o.allow_res2_odd && bundle > 1 && q.psize % bundle) { q.psize *= bundle; }
    if (q.type == 2 && q.psize % std::max(1, bundle)) F("residue 2: partition size not a multiple of the channel count");
    int bsel = t.weighted({6, 2, 1, 1}); q.begin = bsel == 0 ? 0 : bsel == 1 ? (int)t.below((uint32_t)actual / 2 + 1) : bsel == 2 ? actual + (int)t.below(100) : (int)t.below(16);
    if (q.type == 2 && !o.allow_res2_odd && bundle > 1) q.begin -= q.begin % bundle;
    int esel = t.weighted({5, 3, 1, 1}); q.end = esel == 0 ? actual : esel == 1 ? q.begin + (int)t.below((uint32_t)std::max(1, actual - q.begin) + 1) : esel == 2 ? actual * 2 + 5 : (int)t.below((uint32_t)actual + 1);
    if (q.begin > actual) F("residue: begin beyond the block"); if (q.end > actual) F("residue: end beyond the block");
    q.classes = 1 + t.weighted({2, 4, 3, 2, 1, 1, 1, 1}); if (t.chance(1, 30)) q.classes = 64;
    int cw = 1 + t.weighted({4, 4, 2, 1}); int64_t pv = 1; for (int i = 0; i < cw; i++) pv *= q.classes; while (pv > 4096) { cw--; pv /= q.classes; }
    q.classbook = scalar_book(1 + (int)t.below((uint32_t)std::min<int64_t>(pv, 40)), false, (int)pv, (int)pv, cw);
    // stage books: dimension must divide the partition size
    std::vector<int> divs; for (int d = 1; d <= std::min(q.psize, 32); d++) if (q.psize % d == 0 && (d <= 8 || t.chance(1, 4))) divs.push_back(d);
    for (int c = 0; c < q.classes; c++) {
      int nb = t.weighted({2, 5, 3, 1, 1}); int casc = 0; for (int k = 0; k < nb; k++) casc |= 1 << t.below(t.chance(1, 3) ? 8 : 3); if (q.classes > 16 && c > 4) casc &= 1;
      q.cascade[c] = casc; if (casc & (casc - 1)) F("residue: multi-pass cascade"); if (casc && !(casc & 1)) F("residue: cascade with holes");
      for (int j = 0; j < 8; j++) { q.books[c][j] = -1; if (casc & (1 << j)) q.books[c][j] = vq_book(divs[t.below((uint32_t)divs.size())], 0); }
    }
    s.residues.push_back(q); return (int)s.residues.size() - 1;
  }

  void run() {
    static const int chs[] = {1, 2, 3, 4, 5, 6, 8, 7};
    s.channels = chs[t.weighted({5, 6, 2, 1, 1, 1, 1, 1})]; if (s.channels > o.maxch) s.channels = 1 + s.channels % o.maxch;
    s.bs0log = o.min_bslog + t.weighted({3, 3, 4, 3, 2, 1, 1, 1}); if (s.bs0log > o.max_bslog) s.bs0log = o.max_bslog;
    s.bs1log = s.bs0log + t.weighted({2, 2, 2, 3, 1, 1, 1, 1}); if (s.bs1log > o.max_bslog) s.bs1log = o.max_bslog;
    if (o.force_bs0log >= 0) s.bs0log = o.force_bs0log; if (o.force_bs1log >= 0) s.bs1log = o.force_bs1log; if (s.bs1log < s.bs0log) s.bs1log = s.bs0log;
    if (t.chance(1, 40) && o.maxch >= 255 && s.bs1log <= 8) s.channels = t.chance(1, 2) ? 255 : 9 + t.below(246);
    static const uint32_t rates[] = {44100, 48000, 8000, 22050, 16000, 11025, 32000, 96000, 1, 192000, 12345, 1000};
    s.rate = rates[t.weighted({6, 3, 3, 2, 2, 1, 1, 1, 1, 1, 1, 1})];
    s.br_nominal = (int32_t)t.below(500000); s.br_upper = t.chance(1, 4) ? (int32_t)t.below(900000) : 0; s.br_lower = t.chance(1, 4) ? (int32_t)t.below(90000) : 0;
    int half1 = s.bs(1) / 2;
    if (o.huge_book_log > 0) { Book hb; hb.dim = 1; hb.entries = 1 << o.huge_book_log; hb.ordered = true; hb.len.assign(hb.entries, (uint8_t)o.huge_book_log); hb.lookup = 0; hb.used.clear(); s.books.push_back(hb); F("book: huge ordered"); }
    int nmap = 1 + t.weighted({6, 2, 1}); if (o.simple) nmap = 1;
    for (int m = 0; m < nmap; m++) {
      Mapping mp; mp.submaps = 1 + t.weighted({6, 3, 1, 1}); if (t.chance(1, 40)) mp.submaps = 16; if (o.simple && mp.submaps > 2) mp.submaps = 2;
      mp.mux.assign(s.channels, 0); if (mp.submaps > 1) { for (int c = 0; c < s.channels; c++) mp.mux[c] = (int)t.below((uint32_t)mp.submaps); F("mapping: several submaps"); }
      if (s.channels > 1) { int steps = t.weighted({4, 4, 2, 1}); if (t.chance(1, 30)) steps = 8 + t.below(40); for (int i = 0; i < steps; i++) { int a = (int)t.below((uint32_t)s.channels), b = (int)t.below((uint32_t)s.channels - 1); if (b >= a) b++; mp.mag.push_back(a); mp.ang.push_back(b); } if (steps) F("mapping: channel coupling"); if (steps > 1) F("mapping: several coupling steps"); }
      for (int i = 0; i < mp.submaps; i++) {
        int bundle = 0; for (int c = 0; c < s.channels; c++) if (mp.mux[c] == i) bundle++;
        if (!s.floors.empty() && (t.chance(1, 3) || s.floors.size() >= (o.simple ? 2u : 6u))) mp.sfloor[i] = (int)t.below((uint32_t)s.floors.size());
        else mp.sfloor[i] = (o.allow_floor0 && t.chance(3, 10)) ? gen_floor0() : gen_floor1(half1);
        // a residue may be shared only when it suits this bundle (residue 2 constraints); otherwise make a new one
        int share = -1; if (!s.residues.empty() && (t.chance(1, 3) || s.residues.size() >= (o.simple ? 2u : 6u))) { int cand = (int)t.below((uint32_t)s.residues.size()); const Residue &q = s.residues[cand]; if (q.type != 2 || o.allow_res2_odd || bundle <= 1 || (q.psize % bundle == 0 && q.begin % bundle == 0)) share = cand; }
        mp.sres[i] = share >= 0 ? share : gen_residue(bundle, half1);
      }
      s.mappings.push_back(mp);
    }
    int nmodes = 1 + t.weighted({2, 5, 2, 2, 1}); if (t.chance(1, 40)) nmodes = 64; if (nmodes > 2) F("more than 2 modes");
    for (int i = 0; i < nmodes; i++) { Mode m; m.blockflag = i == 0 ? 0 : i == 1 ? 1 : (int)t.below(2); m.mapping = (int)t.below((uint32_t)s.mappings.size()); s.modes.push_back(m); }
    if (nmodes == 1) s.modes[0].blockflag = (int)t.below(2);
  }
};

struct GenStream { Setup s; LStream ls; std::vector<std::string> feat; std::vector<int> pkt_W; std::vector<int> contrib; std::vector<size_t> pkt_bits; bool ok = false; std::string err; int end_trim = 0; };

// npk audio packets under a generated setup.  Granule positions are the true cumulative end positions (last one = total - end_trim).
static inline void gen_stream(Tape &t, const GenOpts &o, int npk, GenStream &g, int32_t serial = 1) {
  SetupGen sg(t, o); sg.run(); g.s = sg.s; g.feat = sg.feat;
  Setup &s = g.s; LStream &ls = g.ls; ls = LStream();
  ls.hdr[0].data = write_id(s); ls.hdr[0].bos = true; ls.hdr[0].packetno = 0; ls.hdr[0].granulepos = 0;
  std::vector<std::string> com; int nc = t.below(3); for (int i = 0; i < nc; i++) com.push_back(sfmt("K%d=v%u", i, t.below(100)));
  ls.hdr[1].data = write_comment("verif vgen", com); ls.hdr[1].packetno = 1; ls.hdr[1].granulepos = 0;
  ls.hdr[2].data = write_setup(s); ls.hdr[2].packetno = 2; ls.hdr[2].granulepos = 0;
  ls.channels = s.channels; ls.rate = (long)s.rate; ls.bs0 = s.bs(0); ls.bs1 = s.bs(1); ls.serial = serial;
  // mode sequence
  std::vector<int> modes; Bulk ms(t.raw() | 1); int style = t.below(4);
  std::vector<int> shortm, longm; for (size_t i = 0; i < s.modes.size(); i++) (s.modes[i].blockflag ? longm : shortm).push_back((int)i);
  for (int k = 0; k < npk; k++) {
    int m;
    if (style == 0 || shortm.empty() || longm.empty()) m = (int)ms.below((uint32_t)s.modes.size());
    else if (style == 1) m = ((k / 2) & 1) ? longm[ms.below((uint32_t)longm.size())] : shortm[ms.below((uint32_t)shortm.size())];     // S S L L S S ...: all four transitions
    else if (style == 2) m = (ms.below(5) == 0) ? shortm[ms.below((uint32_t)shortm.size())] : longm[ms.below((uint32_t)longm.size())];
    else m = (ms.below(5) == 0) ? longm[ms.below((uint32_t)longm.size())] : shortm[ms.below((uint32_t)shortm.size())];
    modes.push_back(m);
  }
  Synth syn(s); int64_t gp = 0; int prevn = 0; PacketPlan pl; pl.unused_pct = (int)t.weighted({10, 30, 5, 90}) == 0 ? 10 : (int)t.below(60); pl.zero_pct = (int)t.below(90);
  uint32_t seedw = t.raw() | 1;
  for (int k = 0; k < npk; k++) {
    SymIO io; io.gen = true; io.rnd = Bulk(mix64(seedw + (uint64_t)k * 0x9E37u) | 1);
    pl.mode = modes[k]; int W = s.modes[modes[k]].blockflag;
    pl.prevflag = k > 0 ? s.modes[modes[k - 1]].blockflag : (int)ms.below(2); pl.nextflag = k + 1 < npk ? s.modes[modes[k + 1]].blockflag : (int)ms.below(2);
    Block blk; if (!syn.packet(io, &pl, blk)) { g.err = "generate-mode packet walk failed: " + blk.note; return; }
    Pkt p; p.data = io.w.b; if (p.data.empty()) p.data.push_back(0); p.packetno = 3 + k;
    int n = s.bs(W); int c = prevn ? prevn / 4 + n / 4 : 0; gp += c; prevn = n; p.granulepos = gp;
    g.pkt_W.push_back(W); g.contrib.push_back(c); g.pkt_bits.push_back(io.w.n);
    ls.audio.push_back(std::move(p));
  }
  if (!ls.audio.empty()) { ls.audio.back().eos = true; }
  ls.nsamples = gp; g.ok = true;
  ls.desc = sfmt("vgen{ch=%d rate=%u bs=%d/%d books=%zu floors=%zu res=%zu maps=%zu modes=%zu pk=%d}", s.channels, s.rate, s.bs(0), s.bs(1), s.books.size(), s.floors.size(), s.residues.size(), s.mappings.size(), s.modes.size(), npk);
}

}  // namespace vg
