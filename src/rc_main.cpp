// rapidcheck driver: generates and shrinks tapes, calls prop_run through the plain interface.
//   prop --worker <out.json> <curtape>   (RC_PARAMS from env)
//   prop --replay <tapefile>             exit 0 = held, 1 = fails, 2 = harness inconsistency
#include <rapidcheck.h>
#include <unistd.h>
#include <fcntl.h>
#include <time.h>
#include <signal.h>
#include <sys/time.h>
#include "tape.h"
#include "report.h"

static Report g_rep;
static std::vector<uint32_t> g_lastfail; static std::string g_lastmsg, g_lastkind;
static int g_curfd = -1; static const char *g_outpath = nullptr;
static long g_shrink_evals = 0; static bool g_failed_once = false;

static void save_current(const std::vector<uint32_t> &w) {
  if (g_curfd < 0) return;
  std::string s; s.reserve(w.size() * 6 + 16);
  char b[16];
  for (uint32_t x : w) { int n = snprintf(b, sizeof b, "%u\n", x); s.append(b, n); }
  if (ftruncate(g_curfd, 0) != 0) {}
  if (pwrite(g_curfd, s.data(), s.size(), 0) < 0) {}
}

// Deterministic-ish work budget for pure CPU spins (DESIGN 2.6): a case may use at most VERIF_CASE_CPU_S seconds of *CPU* time
// (virtual timer: only time this process actually runs counts), thousands of times the cost of any legitimate case.
static long g_case_cpu_s = 150;
static volatile sig_atomic_t g_stop = 0;   // SIGTERM from the driver (campaign wall-clock budget spent): finish the running case, skip the rest, report what was done
static void on_term(int) { g_stop = 1; }
static void on_vtalrm(int) {
  static const char m[] = "WORK-BUDGET exceeded: one case used more CPU time than the per-case budget (unbounded loop?)\n";
  if (write(2, m, sizeof m - 1) < 0) {}
  _exit(97);
}
static void arm_case_timer(bool on) {
  struct itimerval it; memset(&it, 0, sizeof it); if (on) it.it_value.tv_sec = g_case_cpu_s;
  setitimer(ITIMER_VIRTUAL, &it, nullptr);
}

// Per-case leak check (LeakSanitizer, present in the asan variant only): a case that leaves unreachable heap memory behind fails.
extern "C" int __lsan_do_recoverable_leak_check(void) __attribute__((weak));
static bool g_leakcheck = true; static bool g_leak_fail = false;
static bool case_leaked() { return g_leakcheck && __lsan_do_recoverable_leak_check && __lsan_do_recoverable_leak_check() != 0; }

static void dump_map(FILE *f, const char *name, const std::map<std::string, long> &m) {
  fprintf(f, "\"%s\":{", name); bool first = true;
  for (auto &kv : m) { fprintf(f, "%s\"%s\":%ld", first ? "" : ",", jesc(kv.first).c_str(), kv.second); first = false; }
  fprintf(f, "}");
}
static void dump_report(const char *path, bool ok, double wall) {
  FILE *f = fopen(path, "w"); if (!f) return;
  fprintf(f, "{\"stopped\":%s,", g_stop ? "true" : "false");
  fprintf(f, "\"property\":\"%s\",\"ok\":%s,\"evaluations\":%ld,\"shrink_evaluations\":%ld,\"wall_s\":%.3f,", prop_id(), ok ? "true" : "false", g_rep.evaluations, g_shrink_evals, wall);
  dump_map(f, "labels", g_rep.labels); fprintf(f, ",");
  dump_map(f, "excluded", g_rep.excluded); fprintf(f, ",");
  fprintf(f, "\"metrics\":{"); { bool first = true; for (auto &kv : g_rep.metrics) { fprintf(f, "%s\"%s\":%.9g", first ? "" : ",", jesc(kv.first).c_str(), kv.second); first = false; } } fprintf(f, "},");
  fprintf(f, "\"nontrivial\":["); { bool first = true; for (uint64_t h : g_rep.nontrivial) { fprintf(f, "%s\"%016llx\"", first ? "" : ",", (unsigned long long)h); first = false; } } fprintf(f, "],");
  fprintf(f, "\"samples\":["); for (size_t i = 0; i < g_rep.samples.size(); i++) fprintf(f, "%s\"%s\"", i ? "," : "", jesc(g_rep.samples[i]).c_str()); fprintf(f, "]");
  if (!ok) {
    fprintf(f, ",\"failure\":{\"kind\":\"%s\",\"msg\":\"%s\",\"tape\":[", g_lastkind.c_str(), jesc(g_lastmsg).c_str());
    for (size_t i = 0; i < g_lastfail.size(); i++) fprintf(f, "%s%u", i ? "," : "", g_lastfail[i]);
    fprintf(f, "]}");
  }
  fprintf(f, "}\n"); fclose(f);
}

int main(int argc, char **argv) {
  if (const char *e = getenv("VERIF_CASE_CPU_S")) g_case_cpu_s = atol(e);
  if (const char *e = getenv("VERIF_LEAKCHECK")) g_leakcheck = atoi(e) != 0;
  signal(SIGVTALRM, on_vtalrm); signal(SIGTERM, on_term);
  if (argc >= 3 && !strcmp(argv[1], "--replay")) {
    std::vector<uint32_t> w; if (!tape_load(argv[2], w)) { fprintf(stderr, "cannot read %s\n", argv[2]); return 3; }
    Tape t(w); Report r; arm_case_timer(true); bool ok = prop_run(t, r); arm_case_timer(false);
    if (ok && case_leaked()) { ok = r.fail("the case leaked heap memory (LeakSanitizer report above): a clear function did not release everything"); }
    printf("OUT_HASH=%016llx\n", (unsigned long long)r.out_hash);
    if (ok) { printf("REPLAY property=%s HELD labels:", prop_id()); for (auto &kv : r.labels) printf(" %s=%ld", kv.first.c_str(), kv.second); printf("\n"); for (auto &s : r.samples) printf("  sample: %s\n", s.c_str()); return 0; }
    printf("REPLAY property=%s FAILS kind=%s: %s\n", prop_id(), r.fail_kind.c_str(), r.fail_msg.c_str());
    return r.fail_kind == "harness" ? 2 : 1;
  }
  if (argc >= 4 && !strcmp(argv[1], "--worker")) {
    g_curfd = open(argv[3], O_CREAT | O_WRONLY | O_TRUNC, 0644); g_outpath = argv[2];
    int scale = 4; if (const char *e = getenv("VERIF_TAPE_SCALE")) scale = atoi(e);
    struct timespec t0; clock_gettime(CLOCK_MONOTONIC, &t0);
    auto elem = rc::gen::resize(100, rc::gen::oneOf(rc::gen::inRange<uint32_t>(0, 4), rc::gen::inRange<uint32_t>(0, 64),
                                                   rc::gen::inRange<uint32_t>(0, 4096), rc::gen::arbitrary<uint32_t>()));
    // a fixed-length prefix (so that the structural choices of a case are rarely cut short) + a size-scaled tail
    long shrink_max = 500; if (const char *e = getenv("VERIF_SHRINK_MAX")) shrink_max = atol(e);
    int prefix = 24; if (const char *e = getenv("VERIF_TAPE_PREFIX")) prefix = atoi(e);
    auto headgen = rc::gen::container<std::vector<uint32_t>>((std::size_t)prefix, elem);
    auto tailgen = rc::gen::scale((double)scale, rc::gen::container<std::vector<uint32_t>>(elem));
    bool ok = rc::check(prop_id(), [&]() {
      std::vector<uint32_t> w = *headgen;
      { std::vector<uint32_t> tl = *tailgen; w.insert(w.end(), tl.begin(), tl.end()); }
      // bounded shrinking: once the probe budget is spent every further shrink candidate "passes" at once, which ends the search
      if (g_stop) return;   // stopped by the driver: remaining cases are not run (and not counted)
      if (g_failed_once && (g_shrink_evals >= shrink_max || g_leak_fail)) return;   // a leak stays visible to LeakSanitizer for the rest of the process: later cases cannot be judged, keep the original tape
      save_current(w);
      Tape t(w); Report local;
      Report *rp = g_failed_once ? &local : &g_rep;   // cases run while shrinking are not counted as coverage
      if (g_failed_once) g_shrink_evals++; else g_rep.evaluations++;
      arm_case_timer(true);
      bool held = prop_run(t, *rp);
      arm_case_timer(false);
      // only the first failure can be attributed: a failing case may return early without freeing, and LeakSanitizer keeps reporting old leaks
      if (held && !g_failed_once && case_leaked()) { g_leak_fail = true; held = rp->fail("the case leaked heap memory (LeakSanitizer report in the worker log): a clear function did not release everything"); }
      if (!held) {
        bool first = !g_failed_once;
        g_lastfail = w; g_lastmsg = rp->fail_msg; g_lastkind = rp->fail_kind; g_failed_once = true;
        rp->fail_msg.clear();
        // keep the driver informed even if this process is stopped while shrinking: every improvement is written out at once
        if (g_outpath) dump_report(g_outpath, false, 0.0);
        (void)first;
      }
      RC_ASSERT(held);
    });
    struct timespec t1; clock_gettime(CLOCK_MONOTONIC, &t1);
    dump_report(argv[2], ok, (t1.tv_sec - t0.tv_sec) + 1e-9 * (t1.tv_nsec - t0.tv_nsec));
    // the current-tape file only matters when the process dies; remove it on orderly exit
    unlink(argv[3]);
    return ok ? 0 : 1;
  }
  if (argc >= 3 && !strcmp(argv[1], "--hashrun")) {
    // run the generated cases of RC_PARAMS and write one line per case: <output hash> <ok> <tape words...>; no shrinking, no coverage report.
    // The tapes depend only on the seed, so differently built binaries of the same property see the same cases.
    FILE *f = fopen(argv[2], "w"); if (!f) return 3; int scale = 4; if (const char *e = getenv("VERIF_TAPE_SCALE")) scale = atoi(e); int prefix = 24; if (const char *e = getenv("VERIF_TAPE_PREFIX")) prefix = atoi(e);
    auto elem = rc::gen::resize(100, rc::gen::oneOf(rc::gen::inRange<uint32_t>(0, 4), rc::gen::inRange<uint32_t>(0, 64), rc::gen::inRange<uint32_t>(0, 4096), rc::gen::arbitrary<uint32_t>()));
    auto headgen = rc::gen::container<std::vector<uint32_t>>((std::size_t)prefix, elem); auto tailgen = rc::gen::scale((double)scale, rc::gen::container<std::vector<uint32_t>>(elem));
    g_leakcheck = false;
    rc::check(prop_id(), [&]() { std::vector<uint32_t> w = *headgen; { std::vector<uint32_t> tl = *tailgen; w.insert(w.end(), tl.begin(), tl.end()); }
      save_current(w); Tape t(w); Report local; arm_case_timer(true); bool held = prop_run(t, local); arm_case_timer(false);
      fprintf(f, "%016llx %d", (unsigned long long)local.out_hash, held ? 1 : 0); for (uint32_t x : w) fprintf(f, " %u", x); fprintf(f, "\n"); fflush(f); });
    fclose(f); return 0;
  }
  fprintf(stderr, "usage: %s --worker out.json cur.tape | --replay file.tape | --hashrun out.txt\n", argv[0]);
  return 3;
}
