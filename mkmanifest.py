#!/usr/bin/env python3
"""Regenerate MANIFEST.json from registry.py (so the manifest can never drift from what ./check runs)."""
import json, os, sys
sys.path.insert(0, os.path.dirname(os.path.abspath(__file__)))
from registry import PROPS, NOT_APPLICABLE, HOOK_COMMITS

props = [json.loads(l) for l in open(os.path.join(os.path.dirname(os.path.abspath(__file__)), "properties.jsonl"))]
ids = [p["id"] for p in props]
checks = []
for pid in ids:
    if pid not in PROPS:
        continue
    s = PROPS[pid]
    checks.append(dict(
        property_id=pid,
        quick_cmd="./check %s quick" % pid,
        thorough_cmd="./check %s thorough" % pid,
        evidence_file="/verif/evidence/%s.json" % pid,
        replay_cmd_template="./check %s --replay {path}" % pid,
        engine=s["engine_name"],
        level_claimed=dict(category=s.get("level", "exploration"), text=s["level_text"], design_ref=s["design_ref"]),
        level_note=s["level_note"],
        technique=s["technique"],
    ))
na = [dict(property_id=pid, reason=NOT_APPLICABLE.get(pid, "check not built yet in this session (see DESIGN.md section 7 for the order of work)")) for pid in ids if pid not in PROPS]
m = dict(
    version=1,
    setup_cmd="./check setup",
    hooks=dict(guard="XIPH_VORBIS_VERIF", enable="every build of /repo/lib done by ./check passes -DXIPH_VORBIS_VERIF (no hook is currently needed; the define guards nothing)",
               baseline_off_cmd="cmake --build /repo/_build && ctest --test-dir /repo/_build -j8 --timeout 900", source_commits=HOOK_COMMITS, add_only=True),
    engines=[
        dict(name="rc-tape", path="src/rc_main.cpp", serves_properties=[p for p in ids if p in PROPS and PROPS[p]["engine"] == "rc"],
             kind_free_text="rapidcheck generates and shrinks choice-sequence tapes; property bodies decode a tape into a case and check an explicit oracle; 16 worker processes"),
        dict(name="libfuzzer", path="src/fz_*.cpp", serves_properties=[p for p in ids if p in PROPS and PROPS[p]["engine"] == "fz"],
             kind_free_text="coverage-guided libFuzzer targets with structure-aware decoding and in-target semantic oracles, ASan+UBSan"),
    ],
    checks=checks,
    not_applicable=na,
    notes="All checks rebuild /repo/lib/*.c from the working tree under ASan+UBSan (subset, DESIGN.md 2.1). known_findings.json lists genuine defects (fixed/open).",
)
json.dump(m, open(os.path.join(os.path.dirname(os.path.abspath(__file__)), "MANIFEST.json"), "w"), indent=1)
print("MANIFEST.json: %d checks, %d not_applicable" % (len(checks), len(na)))
