"""Engine table for ./check: how each kind of check is built, run and replayed."""
import os, sys


def rc_run(drv, pid, tier, seed, spec):
    return drv.run_rc_property(pid, tier, seed, spec)


def rc_build(drv, pid, spec):
    srcs = [os.path.join(drv.SRC, "rc_main.cpp")] + [os.path.join(drv.SRC, s) for s in spec["sources"]]
    return drv.build_bin(pid.lower(), srcs, spec.get("variant", "asan"), link_extra=spec.get("link_extra", ()))


def rc_replay(drv, pid, spec, path):
    exe = rc_build(drv, pid, spec)
    env = drv.run_env({"VERIF_KF_OPEN": ""})
    env.update(spec.get("env", {}))
    rc, out = drv.replay_once(exe, path, env)
    print(out, end="")
    if drv.is_failure(rc):
        print("VIOLATION property=%s replay=%s" % (pid, path))
        return 1
    return 0 if rc == 0 else rc


ENGINES = {
    "rc": dict(run=rc_run, replay=rc_replay, build=rc_build),
}


def setup_all(drv):
    from registry import PROPS
    for pid, spec in sorted(PROPS.items()):
        ENGINES[spec["engine"]]["build"](drv, pid, spec)
