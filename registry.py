"""Property registry: engine, sources, tier sizes, non-triviality rule (DESIGN.md section 3)."""

PROPS = {
    "C04": dict(
        engine="rc", engine_name="rc-tape", sources=["props/c04.cpp"], level="exploration",
        design_ref="3.5",
        technique="property-based testing (rapidcheck tapes): encode/decode round trip on sample counts and granule positions, differential packet-API vs vorbisfile (seekable and streaming)",
        level_text="Generated search over encoder configurations, lengths N (dense at 0, <1 block and block-size multiples +-2), input partitions, drain schedules and page layouts; "
                   "the oracle is exact (integer counts, granule positions, bit-identical PCM between access paths). It explores thousands of cases per run, it does not prove all N.",
        level_note="Trusted: system libogg, the harness pager (cross-checked against vorbisfile accepting its output), clang ASan/UBSan. Configurations rejected by set-up are skipped.",
        quick=dict(cases=220), thorough=dict(cases=4000),
        rule="case = encoder configuration (channels, rate, VBR/managed/ctl) x signal x N x partition of N into "
             "vorbis_analysis_buffer/wrote pieces x drain schedule x page layout, decoded from a rapidcheck-generated tape; "
             "non-trivial = N not a multiple of bs1/2, or N < bs1, or >= 3 pieces; distinct by hash of (config, signal, N, pieces, layout)",
        require_labels=["N=0", "N<bs1", "managed", "pieces>=3"],
        assumptions=["system libogg 1.3.5 is correct", "configurations the encoder refuses at set-up are outside the property's domain"],
    ),
}

PROPS["C09"] = dict(
    engine="rc", engine_name="rc-tape", sources=["props/c09.cpp"], level="exploration", design_ref="3.10",
    quick=dict(cases=300), thorough=dict(cases=2500),
    technique="property-based testing (rapidcheck tapes): generated chained files, reference model of the link table + differential against standalone packet-level decode of each link (bit-exact)",
    level_text="Generated search over chains of 1..16 encoder-made links (differing channels, rates, block sizes, lengths incl. 0 and single-page links, page layouts, serial numbers); "
               "exact oracle on ov_streams/ov_info/ov_comment/ov_serialnumber/ov_pcm_total/ov_time_total/ov_raw_total and bit-exact audio of a read loop from the start.",
    level_note="Trusted: system libogg, harness pager, packet-level decode as ground truth (itself covered by C01/C04). Links come from the bundled encoder.",
    rule="case = chain of k links (config, signal, N, comments, serial numbers, page layout per link) + callback read-size schedule + request-length schedule; "
         "non-trivial = k >= 2; distinct by hash of the chain description",
    require_labels=["has zero-sample link", "has single-audio-page link", "first link single audio page, chained"],
    assumptions=["system libogg 1.3.5 is correct"],
)

PROPS["C10"] = dict(
    engine="rc", engine_name="rc-tape", sources=["props/c10.cpp"], level="exploration", design_ref="3.11",
    quick=dict(cases=150), thorough=dict(cases=2500),
    technique="property-based testing (rapidcheck tapes): differential between three access paths (seekable vorbisfile, streaming vorbisfile, packet API via ogg_sync) under generated read-size and request-length schedules, bit-exact",
    level_text="Generated search over streams (1..4 links), callback short-read schedules (exact, 1 byte, random), initial buffers, requested lengths and ogg_sync chunkings; "
               "oracle: concatenated PCM of every path is bit-identical to the standalone packet-level decode and no call reports a hole or error.",
    level_note="Trusted: system libogg, harness pager. Links come from the bundled encoder. A seekable open with an initial buffer is not generated (documented for streaming use).",
    rule="case = chain + (per path) read-size schedule, request-length schedule, initial-buffer length, sync chunking; non-trivial = at least one path uses a non-constant schedule; "
         "distinct by hash of chain description and tape position",
    require_labels=["1-byte reads", "initial buffer", "chained (streaming crosses link boundaries)"],
    assumptions=["system libogg 1.3.5 is correct"],
)

NOT_APPLICABLE = {}
HOOK_COMMITS = []
