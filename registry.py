"""Property registry: engine, sources, tier sizes, non-triviality rule (DESIGN.md section 3)."""

PROPS = {
    "C04": dict(
        engine="rc", engine_name="rc-tape", sources=["props/c04.cpp"], level="exploration",
        design_ref="3.5",
        technique="property-based testing (rapidcheck tapes): encode/decode round trip on sample counts and granule positions, differential packet-API vs vorbisfile (seekable and streaming)",
        level_text="Generated search over encoder configurations, lengths N (dense at 0, <1 block and block-size multiples +-2), input partitions, drain schedules and page layouts; "
                   "the oracle is exact (integer counts, granule positions, bit-identical PCM between access paths). It explores thousands of cases per run, it does not prove all N.",
        level_note="Trusted: system libogg, the harness pager (cross-checked against vorbisfile accepting its output), clang ASan/UBSan. Configurations rejected by set-up are skipped.",
        quick=dict(cases=220), thorough=dict(cases=4000),
        rule="case = encoder configuration (channels, rate, VBR/managed/ctl) x signal x N x partition of N into "
             "vorbis_analysis_buffer/wrote pieces x drain schedule x page layout, decoded from a rapidcheck-generated tape; "
             "non-trivial = N not a multiple of bs1/2, or N < bs1, or >= 3 pieces; distinct by hash of (config, signal, N, pieces, layout)",
        require_labels=["N=0", "N<bs1", "managed", "pieces>=3"],
        assumptions=["system libogg 1.3.5 is correct", "configurations the encoder refuses at set-up are outside the property's domain"],
    ),
}

NOT_APPLICABLE = {}
HOOK_COMMITS = []
