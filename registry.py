"""Property registry: engine, sources, tier sizes, non-triviality rule (DESIGN.md section 3)."""

PROPS = {
    "C04": dict(
        engine="rc", engine_name="rc-tape", sources=["props/c04.cpp"], level="exploration",
        design_ref="3.5",
        technique="property-based testing (rapidcheck tapes): encode/decode round trip on sample counts and granule positions, differential packet-API vs vorbisfile (seekable and streaming), differential between the two packet output paths of the encoder, exhaustive windows of consecutive lengths",
        level_text="Generated search over encoder configurations, lengths N (dense at 0, <1 block and block-size multiples +-2), input partitions, drain schedules and page layouts; "
                   "the oracle is exact (integer counts, granule positions, bit-identical PCM between access paths). One case in 120 (quick) / 12 (thorough) checks every N of a window of 128 consecutive lengths "
                   "inside [0, 3*bs1+129] for one of eight block-size families; one case in 4 re-encodes through vorbis_analysis(&vb,&op) and demands byte-identical packets (OV_EINVAL on managed encoders). "
                   "Pages are cut by the harness pager or by libogg itself. It explores thousands of cases per run, it does not prove all N.",
        level_note="Trusted: system libogg (also used as a second pager), clang ASan/UBSan. Configurations rejected by set-up are skipped.",
        quick=dict(cases=220), thorough=dict(cases=4000),
        rule="case = encoder configuration (channels, rate, VBR/managed/ctl) x signal x N x partition of N into "
             "vorbis_analysis_buffer/wrote pieces x drain schedule x page layout, decoded from a rapidcheck-generated tape; "
             "non-trivial = N not a multiple of bs1/2, or N < bs1, or >= 3 pieces; distinct by hash of (config, signal, N, pieces, layout)",
        require_labels=["N=0", "N<bs1", "managed", "pieces>=3", "paged by libogg", "direct packet output compared"],
        assumptions=["system libogg 1.3.5 is correct", "configurations the encoder refuses at set-up are outside the property's domain"],
    ),
}

PROPS["C09"] = dict(
    engine="rc", engine_name="rc-tape", sources=["props/c09.cpp"], level="exploration", design_ref="3.10",
    quick=dict(cases=300), thorough=dict(cases=2500),
    technique="property-based testing (rapidcheck tapes): generated chained files, reference model of the link table + differential against standalone packet-level decode of each link (bit-exact)",
    level_text="Generated search over chains of 1..16 encoder-made links (differing channels, rates, block sizes, lengths incl. 0 and single-page links, page layouts, serial numbers); "
               "exact oracle on ov_streams/ov_info/ov_comment/ov_serialnumber/ov_pcm_total/ov_time_total/ov_raw_total and bit-exact audio of a read loop from the start.",
    level_note="Trusted: system libogg, harness pager, packet-level decode as ground truth (itself covered by C01/C04). Links come from the bundled encoder.",
    rule="case = chain of k links (config, signal, N, comments, serial numbers, page layout per link) + callback read-size schedule + request-length schedule; "
         "non-trivial = k >= 2; distinct by hash of the chain description",
    require_labels=["link table re-read inside a later link", "has zero-sample link", "has single-audio-page link", "first link single audio page, chained"],
    assumptions=["system libogg 1.3.5 is correct"],
)

PROPS["C10"] = dict(
    engine="rc", engine_name="rc-tape", sources=["props/c10.cpp"], level="exploration", design_ref="3.11",
    quick=dict(cases=150), thorough=dict(cases=2500),
    technique="property-based testing (rapidcheck tapes): differential between three access paths (seekable vorbisfile, streaming vorbisfile, packet API via ogg_sync) under generated read-size and request-length schedules, bit-exact",
    level_text="Generated search over streams (1..4 links), callback short-read schedules (exact, 1 byte, random), initial buffers, requested lengths and ogg_sync chunkings; "
               "oracle: concatenated PCM of every path is bit-identical to the standalone packet-level decode and no call reports a hole or error.",
    level_note="Trusted: system libogg, harness pager. Links come from the bundled encoder. A seekable open with an initial buffer is not generated (documented for streaming use).",
    rule="case = chain + (per path) read-size schedule, request-length schedule, initial-buffer length, sync chunking; non-trivial = at least one path uses a non-constant schedule; "
         "distinct by hash of chain description and tape position",
    require_labels=["1-byte reads", "initial buffer", "chained (streaming crosses link boundaries)", "ov_read (integer) path", "ov_read_filter (gain) path", "link starting at a positive granule position"],
    assumptions=["system libogg 1.3.5 is correct"],
)

_SEEK_COMMON = dict(
    engine="rc", engine_name="rc-tape", level="exploration", tape_scale=6,
    quick=dict(cases=600), thorough=dict(cases=12000),
    assumptions=["system libogg 1.3.5 is correct", "ground truth = standalone packet-level decode of each link"],
)
PROPS["C07"] = dict(_SEEK_COMMON, sources=["props/c07.cpp"], design_ref="3.8",
    technique="stateful property-based testing (rapidcheck tapes): generated seek/read histories against a position model, audio compared bit-exactly with an uninterrupted decode",
    level_text="Generated histories (1..24 calls of ov_raw_seek / ov_pcm_seek / ov_pcm_seek_page / ov_time_seek / ov_time_seek_page / ov_read_float / ov_read / read-to-end / reopen) "
               "on generated chained files; after every successful seek the reported position is taken as claimed and every later read must be bit-identical to the linear decode at that position, "
               "with the right link index and tell advancing by exactly the samples returned.",
    level_note="Trusted: system libogg, harness pager, packet-level decode as ground truth. Links come from the bundled encoder (block sizes 256..4096).",
    rule="case = chain (1..4 links) + op history with targets biased to page/packet/link boundaries +-1; non-trivial = a successful seek followed by a data-returning read on a handle that had already "
         "performed another call; distinct by hash of (chain, history)",
    require_labels=["op raw_seek", "op pcm_seek", "op pcm_seek_page", "op time_seek", "op time_seek_page", "chained with seek", "raw seek inside last page of a link", "op read-to-end"],
)
PROPS["C08"] = dict(_SEEK_COMMON, sources=["props/c08.cpp"], design_ref="3.9",
    technique="stateful property-based testing (rapidcheck tapes): generated seek histories, oracle on return codes and landing position from a page-table model",
    level_text="Same generated histories as C07; oracle: ov_pcm_seek(p) returns 0 and tell==p for 0<=p<=L, ov_time_seek lands within one sample, page seeks land in [last page boundary strictly before target, target], "
               "seek to L then read gives EOF, out-of-range arguments are refused and leave tell and the next read (bit-exact) undisturbed.",
    level_note="Trusted: system libogg, harness pager and its page table (page boundaries), packet-level decode as ground truth.",
    rule="case = chain (1..4 links) + op history with targets biased to page/packet/link boundaries +-1, 0 and L; non-trivial = a successful seek followed by a data-returning read with >= 2 calls made; "
         "distinct by hash of (chain, history)",
    require_labels=["op pcm_seek", "op pcm_seek_page", "op time_seek", "op time_seek_page", "op out-of-range seek", "seek to L then EOF", "chained with seek"],
)

PROPS["C20"] = dict(_SEEK_COMMON, sources=["props/c20.cpp"], design_ref="3.21",
    technique="stateful property-based testing (rapidcheck tapes): generated histories with ov_halfrate toggles, audio compared bit-exactly with a half-rate packet-level decode, positions against a model",
    level_text="Generated histories (reads, all five seeks, reopen, ov_halfrate on/off at arbitrary points) on generated chained files; with half rate on every read must be bit-identical to the half-rate packet-level decode "
               "of the link at (tell - link start)/2, tell advances by two per sample, ov_pcm_seek lands on the link's even grid at or below the target, totals stay full-rate, each link delivers ceil(N/2) samples; "
               "switching off must give full-rate audio bit-identical to the plain decode at the reported position.",
    level_note="Trusted: system libogg, harness pager, packet-level half-rate decode (vorbis_synthesis_halfrate before synthesis_init) as ground truth. Chains whose interior links have odd length are generated "
               "(1 in 6) with position checks relaxed by one sample, because the statement's clauses conflict there (DESIGN 3.21). The refusal clause (64-sample blocks) needs synthetic streams.",
    rule="case = chain (1..3 links) + op history with ov_halfrate toggles; non-trivial = a toggle after at least one read, followed by a successful seek and a data-returning read; distinct by hash of (chain, history)",
    require_labels=["op halfrate on", "op halfrate off", "halfrate on after a read", "halfrate off after a read", "halfrate on before first read", "toggle after a read, then seek, then read", "op pcm_seek", "op halfrate refused (64-sample blocks)", "synthetic (vgen) link"],
)

PROPS["C16"] = dict(
    engine="rc", engine_name="rc-tape", sources=["props/c16.cpp"], level="exploration", design_ref="3.17",
    quick=dict(cases=2500), thorough=dict(cases=30000, fuzz_seconds=90),
    technique="property-based testing (rapidcheck tapes): pack/unpack round trip of generated comment lists, independent parser of the packet, reference model of the tag queries",
    level_text="Generated comment lists (0..3000 entries, lengths 0..350 kB, arbitrary bytes, embedded zeros and NULL entries through hand-built arrays, C strings through vorbis_comment_add/add_tag), packed by "
               "vorbis_commentheader_out or vorbis_analysis_headerout, parsed by an independent spec-level reader, unpacked by vorbis_synthesis_headerin and read through ov_comment; exact oracle on count, lengths, bytes, "
               "order, zero termination and vendor string; vorbis_comment_query/query_count compared with a model (ASCII-only case folding, n-th match in insertion order) under the C, C.UTF-8 and POSIX locales.",
    level_note="Trusted: system libogg bit packer. No non-C locale is installed in the image, so a regression to locale-dependent toupper() is visible only for bytes >= 0x80 (tags with such bytes are generated).",
    rule="case = comment list (entry kinds: tag=value, no tag, empty, tag only, value containing '='; tags from a pool with random case changes) + installation path + packer + query tags/indices; "
         "non-trivial = two entries whose tags differ only in case, or an entry with an embedded zero byte; distinct by hash of the list",
    require_labels=["embedded zero byte", "duplicate tag in different case", "empty list", "hundreds of entries", ">100 kB of comments", "query with >=2 matches", "read back through ov_comment", "packed by vorbis_analysis_headerout", "NULL entry"],
    assumptions=["system libogg 1.3.5 is correct"],
)

PROPS["C01"] = dict(
    engine="rc", engine_name="rc-tape", sources=["props/c01.cpp"], level="exploration", design_ref="3.1", tape_scale=6,
    quick=dict(cases=250), thorough=dict(cases=6000),
    technique="property-based testing (rapidcheck tapes): generated valid Vorbis I streams (all floor/residue/codebook/mapping features) decoded by libvorbis and by an independent specification-level reference decoder; differential with a derived single-precision error bound",
    level_text="vgen constructs complete valid streams from a tape (setup headers using floor 0 and 1, residue 0/1/2, ordered/sparse/single-entry/lattice/explicit/sequence codebooks, 1..16 submaps, coupling, 1..64 modes, "
               "block sizes 64..8192, 1..255 channels; audio packets produced by a specification-level packet walk in generate mode). libvorbis must accept the headers, consume every packet to the same bit, return the "
               "sample counts the specification defines (incl. start/end trimming by granule position) and every sample must agree with a double-precision reference decoder written from the specification text within a "
               "running single-precision error bound.",
    level_note="Trusted: my reading of the specification (vspec.h); the bound uses a safety factor (IMDCT c=32). Ill-conditioned cases (floor 0 next to an LSP root, bound > 1% of the block peak) compare counts and bit "
               "consumption only and are counted. Streams stay inside libvorbis's documented limits (DESIGN 3.1 soundness notes).",
    rule="case = generated setup + 2..40 generated audio packets + granule scheme; non-trivial = >= 3 packets, at least one channel with a used floor and a non-zero residue; distinct by hash of setup and packet bytes",
    require_labels=["floor 0", "floor 1", "residue 0", "residue 1", "residue 2", "book: ordered", "book: sparse", "book: single entry", "book: lattice (lookup 1)", "book: explicit values (lookup 2)", "book: sequence_p",
                    "mapping: several submaps", "mapping: channel coupling", "more than 2 modes", "transition SS", "transition SL", "transition LS", "transition LL", "start trim", "end trim", "samples compared",
                    "bs0=64", "bs1=8192"],
    assumptions=["the specification text in doc/*.tex is the authority; vspec.h is a faithful transcription of it"],
)

PROPS["C17"] = dict(
    engine="rc", engine_name="rc-tape", sources=["props/c17.cpp"], level="exploration", design_ref="3.18", tape_scale=6,
    quick=dict(cases=500), thorough=dict(cases=10000),
    technique="property-based testing (rapidcheck tapes): twin vorbisfile handles with identical history, one read through ov_read / ov_read_filter (with a non-idempotent gain filter) and one through ov_read_float; exact conversion oracle (filter applied exactly once, scale, round to nearest, clip, offset, byte order, interleave)",
    level_text="Generated chains (encoder links and synthetic links with decoded values from 1e-6 to beyond 1e9, 1..255 channels, 64..4096 blocks) and histories of ov_read calls in all eight (word, signed, endian) formats with buffer lengths "
               "0..65000 (incl. smaller than a frame and not a multiple of a frame), seeks, half rate; every byte returned is compared with the conversion of the twin handle's float sample, the return value must be whole frames <= length, "
               "the position must advance by the frames returned, bytes beyond the return value must be untouched, a buffer below one frame or a non-positive word size must give OV_EINVAL without writing or moving.",
    level_note="Trusted: ov_read_float on the twin handle as the float reference (itself checked bit-exactly against packet-level decode by C07/C10). At an exact .5 tie either neighbour is accepted; NaN samples are skipped.",
    rule="case = chain + history of ov_read calls (format, length), seeks and refused calls; non-trivial = a read whose frames contain both clipped and unclipped samples, or more than 2 channels; distinct by hash of (chain, history)",
    require_labels=["ov_read_filter with a gain filter", "read with clipped and unclipped samples", "more than 2 channels", "buffer smaller than one frame", "non-positive word size", "format word=1 signed=0 bigendian=0", "format word=2 signed=1 bigendian=1", "format word=2 signed=0 bigendian=1", "half rate", "synthetic (vgen) link"],
    assumptions=["system libogg 1.3.5 is correct"],
)

PROPS["C19"] = dict(
    engine="rc", engine_name="rc-tape", sources=["props/c19.cpp"], level="exploration", design_ref="3.20", tape_scale=6,
    quick=dict(cases=500), thorough=dict(cases=10000),
    technique="property-based testing (rapidcheck tapes): twin vorbisfile handles with identical history, lapped seek on one and plain seek on the other; bit-exact comparison beyond the first half short block, cross-fade formula with the reference decode inside it",
    level_text="Generated chains (encoder and synthetic links, differing channel counts, rates and short-block sizes incl. 64) and histories; each of the five lapped seeks (and ov_crosslap with a third handle) is run on handle A and the plain "
               "counterpart on twin B: failure parity, OV_EOF only when nothing follows the target or the handle had no decode state at end of stream, equal landing position, bit-identical audio from one half short block on, and inside it "
               "A = new*w^2 + old*(1-w^2) with old taken from the packet-level reference decode at the old position and w from the specification's window formula.",
    level_note="Trusted: packet-level decode as ground truth for the old audio; when fewer than half a short block remains in the old link the lap buffer comes from the decoder's overlap half, which the reference does not contain: "
               "those samples are only required to be finite (counted). After ov_crosslap the first handle is not used again.",
    rule="case = chain + history (plain reads/seeks on both handles, then a lapped call); non-trivial = lapped call succeeded with a fully predicted cross-fade region and landed in a different link than the old position; distinct by hash of (chain, history)",
    require_labels=["op ov_pcm_seek_lap", "op ov_pcm_seek_page_lap", "op ov_time_seek_lap", "op ov_time_seek_page_lap", "op ov_raw_seek_lap", "op ov_crosslap", "cross-fade formula checked", "old position near a link end", "old position at end of stream",
                    "lap across links with different channels or short block", "half rate", "link with 64-sample short blocks", "out-of-range target"],
    assumptions=["system libogg 1.3.5 is correct"],
)

PROPS["C11"] = dict(
    engine="rc", engine_name="rc-tape", sources=["props/c11.cpp"], level="exploration", design_ref="3.12", tape_scale=6,
    quick=dict(cases=500), thorough=dict(cases=10000),
    technique="property-based testing (rapidcheck tapes): metamorphic comparison of a disturbed decode (drop, duplicate, truncate, bit flips, random bytes, swap, restart, fresh decoder) with the undisturbed decode, per-packet segments compared bit-exactly",
    level_text="Generated streams (bundled encoder with block switching, and synthetic vgen streams) of 6..60 packets with pure-lapping or page-style granule positions; 1..3 generated disturbances; output is recorded per blockin call and every "
               "segment from the second packet after the last disturbance on (and every segment before the first) must be bit-identical to the clean decode; a second arm re-pages the damaged stream with valid checksums and compares what "
               "vorbisfile returns outside the neighbourhood, located by ov_pcm_tell, with the clean decode.",
    level_note="Trusted: system libogg, harness pager. The trimmed final segment is compared in full only when a granule position lies between the disturbance and the end (otherwise its common prefix). The vorbisfile arm allows one long "
               "block of slack around the neighbourhood and, after a dropped/duplicated/swapped packet, compares only the part before it by position.",
    rule="case = stream + granule variant + disturbances (kind, packet index, parameters); non-trivial = the disturbed decode differs from the clean one inside the neighbourhood (the damage had an effect); distinct by hash of (stream description, disturbances)",
    require_labels=["drop", "duplicate", "truncate", "flip", "random bytes", "swap", "restart before", "fresh decoder at", "disturbance changed its own neighbourhood", "vorbisfile arm compared samples", "synthetic (vgen) stream", "granule positions all -1", "page-style granule positions"],
    assumptions=["system libogg 1.3.5 is correct"],
)

PROPS["C12"] = dict(
    engine="rc", engine_name="rc-tape", sources=["props/c12.cpp"], level="fault_enumeration", design_ref="3.13", tape_scale=6,
    quick=dict(cases=80), thorough=dict(cases=600),
    technique="fault injection with complete enumeration per generated scenario: every callback invocation index x {read error, premature zero read, seek -1, tell -1, one-byte reads} x {one-shot, persisting}; oracle on return codes, close accounting, work budget and bit-exact recovery",
    level_text="Each case is a generated scenario (1..2 links, encoder or synthetic; open, then 1..6 calls among ov_read_float, ov_read, the seeks, a lapped seek, ov_halfrate). The scenario is run fault-free to count its callback "
               "invocations n; then the whole fault space (n x 9 fault plans) is executed. A hard fault observed during a call must make that call fail (reads may also return end of file or unchanged data); one-byte reads must change "
               "nothing; the close callback never runs before ov_clear and never for a failed open, which must leave the handle zeroed; no call may exceed the callback budget; after the fault, with working callbacks, "
               "ov_pcm_seek to generated positions must succeed with exact tell and bit-identical audio.",
    level_note="exhaustive over the fault index space of each generated scenario, not over scenarios. A seek fault at the very first seek callback is the library's seekability probe (documented: the source is then treated as a stream). "
               "A premature zero read during open may legitimately look like a shorter file (no recovery requirement there).",
    rule="case = scenario; evaluations counts scenarios; distinct_nontrivial counts (scenario, invocation index, fault kind, persistence) plans in which the library actually observed the fault (the failing callback was invoked)",
    require_labels=["fault during open: open fails", "fault during ov_read_float", "fault during ov_pcm_seek", "fault during ov_raw_seek", "recovery seek and reads verified", "links=2"],
    assumptions=["system libogg 1.3.5 is correct", "ground truth = standalone packet-level decode of each link"],
)

PROPS["C15"] = dict(
    engine="rc", engine_name="rc-tape", sources=["props/c15.cpp"], level="exploration", design_ref="3.16",
    quick=dict(cases=400), thorough=dict(cases=6000, fuzz_seconds=120),
    technique="property-based testing (rapidcheck tapes): generated argument tuples and vorbis_encode_ctl sequences through all four set-up entry points; oracle on return codes, cleared structures, reported channels/rate, a decodable header triple and a short encode; ASan/UBSan/LSan",
    level_text="Generated channels in [-1,300], rates in [-1,2^31-1] dense around the template boundaries (+-2), qualities incl. out-of-range/NaN/inf, bitrate triples incl. 0, -1, inverted and huge, 0..8 vorbis_encode_ctl requests (all 12 request "
               "numbers, unknown numbers, NULL where defined, values at and beyond each clamp) before and after vorbis_encode_setup_init. Oracle: only documented return codes; failed one-step calls leave vorbis_info all-zero; vorbis_info_clear "
               "twice is safe and leaves zeros; nothing leaks (per-case LeakSanitizer); SET requests after setup_init are refused; success implies the requested channels and rate, legal block sizes, working analysis_init/headerout, headers the "
               "decoder accepts, and an encode of 0, 1, bs1-1, 3*bs1+7 or about 1.3 s of samples without memory errors (RATEMANAGE2_SET also as one-field probes: every other field valid, one at a boundary value).",
    level_note="Trusted: clang sanitizers (UBSan subset of DESIGN 2.1). vorbis_encode_ctl is never called on a cleared vorbis_info or with NULL for GET requests that do not define it (outside the API contract).",
    rule="case = (entry point, channels, rate, quality or bitrate triple, ctl sequence, M, signal); non-trivial = a rejected set-up, or a successful one outside the suite's grid (rate not in the six tested, channels > 8, managed or three-step); distinct by hash of the case description",
    require_labels=["set-up refused", "set-up succeeded", "init_vbr", "init (managed)", "three-step vbr", "three-step managed", "ctl SET accepted before setup_init", "ctl after setup_init", "more than 8 channels", "successful set-up outside the suite's grid", "nominal bitrate at the edge of the accepted interval"],
    assumptions=["documented error codes of the set-up calls: OV_EINVAL, OV_EIMPL, OV_EFAULT"],
)

PROPS["C13"] = dict(
    engine="rc", engine_name="rc-tape", sources=["props/c13.cpp"], level="exploration", design_ref="3.14", tape_scale=6,
    quick=dict(cases=900), thorough=dict(cases=15000),
    technique="property-based testing (rapidcheck tapes): generated usage scenarios of the encoder, the packet decoder and vorbisfile that stop at any stage or take an error path, always ending in the documented clear calls made twice; per-case LeakSanitizer + AddressSanitizer as the memory oracle, plus zeroed-object and close-callback accounting checks",
    level_text="Three scenario families from one tape: (a) encoder: every template family incl. 5.1 and 255 channels, VBR/managed/three-step with ctl tweaks, rejected set-ups, three-step abandoned before setup_init, stop after info_init / set-up / "
               "analysis_init / block_init / headerout / k blocks with or without end of input; (b) packet decoder: encoder and synthetic headers, 0..3 headers submitted with truncation at any byte, bit flips, field replacement or a garbage tail, "
               "vorbis_synthesis_init on whatever resulted, 0..m packets; (c) vorbisfile: intact, truncated, bit-flipped, page-dropped, header-cut and non-Ogg inputs, seekable / streaming / ov_test (+ov_test_open) opens with injected "
               "callback faults, reads, seeks, lapped seeks, half rate. After the clear calls (made twice) every object must be all-zero, no heap block of the case may remain (LeakSanitizer after every case), nothing is freed twice "
               "(ASan), and the close callback ran exactly once for successful opens and never for failed ones.",
    level_note="Trusted: clang ASan/LSan. Harness objects are pre-filled with 0x5b so that use of an uninitialised structure by an error path is visible.",
    rule="case = one scenario; non-trivial = a scenario that took an error path or stopped before normal completion (rejected set-up, abandoned encode, fewer than 3 headers accepted, failed or damaged open); distinct by hash of the scenario description",
    require_labels=["encoder set-up rejected", "encoder abandoned mid-stream", "5.1 template", "header refused", "synthesis_init failed", "decoder initialised", "open failed", "damaged stream opened", "ov_test without ov_test_open, cleared", "three-step set-up abandoned before setup_init"],
    assumptions=["system libogg 1.3.5 is correct"],
)

PROPS["C14"] = dict(
    engine="rc", engine_name="rc-tape", sources=["props/c14.cpp"], level="exploration", design_ref="3.15",
    quick=dict(cases=200), thorough=dict(cases=4000),
    technique="property-based testing (rapidcheck tapes): generated managed configurations, (1) real encodes of generated signals and (2) direct drive of vorbis_bitrate_addblock with generated candidate packet sizes; invariant over every contiguous run of emitted packets plus the reservoir invariant",
    level_text="Generated managed configurations (max only, min only, both, CBR; default, halved, doubled, 1/64 and 500..4000-bit reservoirs; bias 0..1; with and without average tracking; 1..6 channels, seven rate bands). Arm 1 encodes 2..9 "
               "signal segments alternating silence, full-band noise, click trains and tones (up to 400k samples). Arm 2 sets up a real managed vorbis_dsp_state/vorbis_block and feeds 200..2000 blocks whose 15 candidate packets have "
               "generated sizes (monotone, non-monotone, bursts, all equal, zero and 60 kB) and block flags. Oracle: for every contiguous run of packets sum(bits) <= max_rate*T + R + E and >= min_rate*T - R - E, and 0 <= reservoir <= R after every packet.",
    level_note="T is the run's duration as the manager counts it (half a block per packet). E is the stated quantisation allowance: half a bit per short-block unit (the per-unit quota is rint()ed), 8 bits of byte granularity, and "
               "max(rate)*(bs1-bs0)/(4*samplerate) for the block-boundary term between the two natural definitions of a packet's duration. Limits and reservoir are read from codec_setup_info.bi (what the manager uses).",
    rule="case = managed configuration + (signal segments | candidate-size profile); non-trivial = the limiter acted (a packet was truncated or padded, or the reservoir left its resting fill); distinct by hash of the case description",
    require_labels=["arm: real encode", "arm: direct drive of the rate manager", "max only", "min only", "max and min", "CBR", "limiter acted (truncation, padding or reservoir moved)"],
    assumptions=["reading of 'duration of those packets' as stated in level_note"],
)

PROPS["C05"] = dict(
    engine="rc", engine_name="rc-tape", sources=["props/c05.cpp"], level="exploration", design_ref="3.6",
    quick=dict(cases=200), thorough=dict(cases=4000),
    technique="property-based testing (rapidcheck tapes): generated encoder configurations and hostile signals; every header and audio packet is parsed by an independent strict specification-level reader (bit accounting, window flags) and decoded by libvorbis; differential on consumed bits and PCM",
    level_text="Generated configurations (VBR, managed with hard max/min/CBR, three-step with ctl tweaks, the two-submap 5.1 templates) and signals (silence, full scale, 1000x over range, DC, impulses, denormals, per-channel stretches of digital "
               "silence). The three headers must be accepted by libvorbis and by the strict parser of vspec.h and agree with the encoder's vorbis_info; every audio packet must be a valid packet whose window flags match its neighbours' block "
               "sizes; unmanaged packets must be consumed to within their last byte by both the specification-level walk and libvorbis, with no read past the end; managed packets are never rejected, run out of bits only when a hard maximum is "
               "configured, and carry only zero padding; PCM of the specification-level decode agrees with libvorbis within the C01 bound (while the O(N^2) budget lasts).",
    level_note="Trusted: vspec.h as the reading of the specification. 'Ran out of bits' is decided by the specification-level walk (libvorbis's codeword look-ahead does not advance at end of packet, so its bit count cannot show it).",
    rule="case = configuration + signal + per-channel silence pattern + N + write sizes; non-trivial = >= 4 audio packets with at least one long and one short block, or a managed stream with padded/truncated packets or more than 3 distinct packet sizes; distinct by hash of the case description",
    require_labels=["managed", "unmanaged", "hard maximum configured", "5.1 (two submaps)", "channels silent for stretches", "PCM compared with the reference decoder"],
    assumptions=["vspec.h is a faithful transcription of the specification"],
)

PROPS["C06"] = dict(
    engine="rc", engine_name="rc-tape", sources=["props/c06.cpp"], level="exploration", design_ref="3.7",
    quick=dict(cases=300), thorough=dict(cases=4000),
    technique="property-based testing (rapidcheck tapes): generated signals (sharp-autocorrelation noise and clicks, multitones in the lower and in the upper part of the coded band, per-channel distinct content, silent channel subsets, low tones on the LFE channel) through encode+decode; oracle: argmax of the input/output cross-correlation is lag 0, correlation matrix diagonal-dominant, bounded peak, per-channel SNR against a floor calibrated per (mode, rate class, coupling class, template setting, signal class) bucket, metamorphic SNR monotonicity in quality, no sounding channel decodes to silence",
    level_text="Generated configurations (1..8 channels, eight rates, VBR q -0.1..1.0 and managed) and four signal classes with per-channel distinct content and any subset of channels silent, at least 7 long blocks: low-passed noise and click trains (alignment: the lag in "
               "[-min(bs1,2048), +..] that maximises the cross-correlation must be exactly 0 whenever that maximum is strong and distinct; no permutation: every sounding input channel correlates best with the same-numbered output channel), multitones below 0.8 x and between 0.56 and 0.94 x the template's lowpass, 40-110 Hz on the LFE channel of the 5.1 set-ups "
               "(per-channel SNR at least the worst value seen over the calibration runs of the same bucket minus 8 dB, only where that floor is at least 3 dB; SNR(q+0.4) >= SNR(q) - 6 dB on the same signal; a sounding channel never decodes to silence). All samples finite; peak(out) <= 3.5 peak(in) + 0.05.",
    level_note="The peak factor and the SNR floors are calibrated empirical bounds (src/props/c06_floors.inc, tools/c06_calibrate.py, DESIGN 3.7): a marginal quality regression (a few dB) is below the resolution of this check; delays, channel swaps, sign errors, a channel or band decoded as something else (SNR near 0 dB) and broadband noise at -20 dB are not. Buckets whose calibrated floor is below 3 dB (low settings legitimately discard or merge such content) are undecidable and labelled so.",
    rule="case = configuration + signal class and parameters + silent mask + N; non-trivial = input RMS above -40 dBFS (or some channels silent) and at least 6 long blocks; distinct by hash of the case description",
    require_labels=["alignment checked (lag 0 is the correlation maximum)", "channel order checked", "SNR checked", "SNR checked (per channel, calibrated bucket)", "SNR checked (upper band)", "quality monotonicity checked", "class 0", "class 1", "class 2", "class 3", "some channels silent", "silent / sounding channel energies checked"],
    assumptions=["calibration table src/props/c06_floors.inc (worst SNR per bucket on the unchanged tree)", "known finding D34 (open): tones between 0.715 and 0.785 of Nyquist are not generated for rates 9000..14999 Hz"],
)

PROPS["C02"] = dict(
    engine="rc", engine_name="rc-tape", sources=["props/c02.cpp"], level="exploration", design_ref="3.2", tape_scale=6,
    quick=dict(cases=900), thorough=dict(cases=20000, fuzz_seconds=300),
    technique="structure-aware fuzzing through the tape engine (rapidcheck-generated and shrunk; the same body runs under libFuzzer in the thorough tier): valid vgen/encoder headers and packets with field-level mutation at the exact bit positions of header fields, byte-level damage and generated call scripts; oracle = ASan/UBSan/LSan + 8 MiB stack + documented return-code sets + pcmout bounds + clear functions",
    level_text="Inputs: complete valid streams from vgen (every setup feature, up to 255 channels, 64..8192 blocks, ordered codebooks of up to 2^22 entries) or the encoder; 0..4 mutations: any setup/identification field overwritten with 0, 1, max, max-1, "
               "mid or random (positions logged by the header writer), truncation at any byte, bit flips, random bytes, reordered or replaced headers, damaged audio packets, perturbed b_o_s/e_o_s/granulepos/packetno. Scripts of 4..44 calls "
               "over headerin, idheader, synthesis_init, synthesis, trackonly, blockin, pcmout+read (incl. too many), lapout, restart, halfrate (before and after init), packet_blocksize, info_blocksize, granule_time, block_clear/init, dsp_clear. "
               "Every returned sample is read; return values must lie in the documented sets; after any rejection the clear calls (twice) must work and leave zeros; no leak (per-case LeakSanitizer); a per-case CPU budget bounds termination. "
               "Heap clause: after every call the bytes the library holds (ASan live-byte count differenced across library calls) must stay within a closed form of the fields of the accepted headers; "
               "one case in 10 decodes the same stream 4..28 times over on one decoder (plain, with restart, with lapout, with a fresh block per pass) and the bytes held after pass 2 and after the last pass must be equal.",
    level_note="Calls are made within the documented contract (decode calls only on an initialised state, blockin only after a successful synthesis/trackonly on that block) plus the misuse classes the property names. Termination is decided by a CPU-time "
               "budget per case (150 s, thousands of times the normal cost), not by proof.",
    rule="case = material + mutations + call script; non-trivial = the identification header was accepted and a later header or packet reached a type-specific unpacker; distinct by hash of (case description, return-code history)",
    require_labels=["header rejected", "synthesis_init succeeded", "synthesis_init failed", "audio packet rejected", "decoded at least one block", "mutated input", "huge ordered codebook", "encoder stream", "soak: repeated decode of one stream"],
    assumptions=["system libogg 1.3.5 is correct"],
)

PROPS["C03"] = dict(
    engine="rc", engine_name="rc-tape", sources=["props/c03.cpp"], level="exploration", design_ref="3.4", tape_scale=6,
    quick=dict(cases=800), thorough=dict(cases=20000, fuzz_seconds=300),
    technique="structure-aware fuzzing through the tape engine (rapidcheck-generated and shrunk; the same body runs under libFuzzer in the thorough tier): generated chained streams damaged at the page level (with checksum repair), every open mode, generated scripts over all public vorbisfile calls; oracle = ASan/UBSan/LSan + callback work budget + documented return codes + close accounting",
    level_text="Physical streams: chains of 1..16 encoder/synthetic links (64..4096 blocks, 1..255 channels), then 0..4 damage steps on the page structure (drop, duplicate, move pages; page-free runs of 66..266 kB inserted at page boundaries, zeroed stretches; edit granule position, serial number, flags, sequence number, "
               "version, lacing values; truncate anywhere; bit flips; garbage incl. fake capture patterns between pages; EOS removed; first link appended again = repeated serial number), checksums repaired in 4 of 5 cases. Opens: seekable, "
               "NULL seek/tell, failing seek, ov_test(+ov_test_open), initial buffers, short-read schedules. Scripts of 2..41 calls: ov_read_float, ov_read (all formats, tiny buffers, bad word sizes), all seeks and lapped seeks with in-range, "
               "boundary, out-of-range, NaN and infinite arguments, tells, totals, info/comment/bitrate/serialnumber with link indices -2..links+1, bitrate_instant, halfrate, ov_crosslap with a second handle, ov_read_filter, clear twice, "
               "calls on handles whose open failed. Oracle: no sanitizer report, per-call callback budget, return values in the documented sets, reads never exceed the request, failed opens leave a zeroed handle and an unclosed source, "
               "close runs exactly once at ov_clear.",
    level_note="Termination is decided by a deterministic budget of callback invocations per API call (>= 100000 and >= 3600 per 2 KiB of file), plus the per-case CPU budget; it bounds, it does not prove.",
    rule="case = chain + damage steps + open mode + call script; non-trivial = the open succeeded and at least one read returned data or one seek succeeded; distinct by hash of (case description, return-code history)",
    require_labels=["open failed", "damaged stream", "intact stream", "seekable", "streaming", "ov_test", "initial buffer", "damaged stream delivered data", "page-free run longer than 64 kB"],
    assumptions=["system libogg 1.3.5 is correct"],
)

PROPS["C18"] = dict(
    engine="rc", engine_name="rc-tape", sources=["props/c18.cpp"], level="exploration", design_ref="3.19", tape_scale=6,
    quick=dict(cases=40, cross_seeds=4, cross_cases=25, tsan_workers=4, tsan_cases=8), thorough=dict(cases=800, cross_seeds=8, cross_cases=300, tsan_workers=8, tsan_cases=120),
    cross_variants=["asan", "poisonA", "poisonB"], poison={"poisonA": "0x7F", "poisonB": "0xFF"}, tsan=True,
    technique="property-based testing (rapidcheck tapes): generated sets of 2..6 jobs (encoder, packet decoder, vorbisfile) run alone, again after heap churn, and concurrently on threads; differential across builds with different stack auto-init and heap fill bytes; ThreadSanitizer run of the same property",
    level_text="Each case is a set of jobs with disjoint objects (encoder configurations, packet decodes of encoder/synthetic streams, vorbisfile handles with read/seek/lap/half-rate scripts). Oracle: every job's output hash when run concurrently behind a "
               "barrier with generated sched_yield points equals its solitary hash; equals its hash when repeated after 300 poisoned malloc/free blocks; the MXCSR / x87 control state is unchanged by every job; the same generated tapes give the same "
               "output hash in three builds that differ in stack auto-initialisation (pattern / zero / none) and malloc fill byte (0x7F = huge positive floats / 0xFF = NaN floats and -1 integers / ASan); the ThreadSanitizer build of the property reports no race.",
    level_note="The harness does not own the scheduler: interleavings are sampled, not enumerated; a race is found as far as TSan's happens-before analysis flags the unsynchronised accesses of an execution in which both occur. A read of "
               "uninitialised memory that influences no output is invisible to the differential arm. MSan is not usable (libogg is uninstrumented).",
    rule="case = job set; non-trivial = at least two jobs of different kinds actually overlapped in time (observed by an atomic counter used for this label only, never for the verdict); distinct by hash of the job descriptions",
    require_labels=["jobs overlapped in time", "mixed job kinds"],
    assumptions=["system libogg 1.3.5 is thread-safe for disjoint objects"],
)

NOT_APPLICABLE = {}
HOOK_COMMITS = []
