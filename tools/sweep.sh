#!/bin/bash
# sweep.sh <tier> <seed> [seed...] : run every registered check on the current tree with the given VERIF_SEED values; report anything that is not clean.
# (development aid: false alarms and flakiness on the unchanged tree)
TIER=$1; shift
cd "$(dirname "$0")/.."
./check setup >/dev/null 2>&1
for seed in "$@"; do
  for p in $(python3 -c "from registry import PROPS; print(' '.join(sorted(PROPS)))"); do
    s=$(date +%s); out=$(VERIF_SEED=$seed ./check $p $TIER 2>&1); rc=$?
    echo "seed=$seed $p rc=$rc $(( $(date +%s) - s ))s $(echo "$out" | tail -1)"
    if [ $rc -ne 0 ] || echo "$out" | grep -qE "VIOLATION|FLAKY|HARNESS|GENERATOR-GAP"; then echo "$out" | grep -E "VIOLATION|detail:|FLAKY|HARNESS|GENERATOR-GAP" | cut -c1-600 | head -8; mkdir -p sweepfound; cp replay/found/*.tape sweepfound/ 2>/dev/null; fi
  done
done
