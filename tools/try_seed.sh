#!/bin/bash
# try_seed.sh <patch.diff> <tier> <PROP> [PROP...]
# Runs the named checks against a seeded change.  Default: in a scratch worktree of /repo (outside /repo and /verif) with the patch applied,
# through VERIF_REPO/VERIF_WORK, so that /repo, /verif/work and /verif/evidence stay untouched and several trials can run at once.
# With INPLACE=1: apply to /repo itself, run, undo straight afterwards (the way the checks are used for real).
P=$(readlink -f "$1"); TIER=$2; shift 2
cd /verif
if [ "${INPLACE:-0}" = 1 ]; then
  git -C /repo diff --quiet || { echo "/repo working tree is dirty"; exit 2; }
  git -C /repo apply "$P" || { echo "patch does not apply"; exit 2; }
  trap 'git -C /repo checkout -- .' EXIT
else
  WT=/tmp/trial-$$; git -C /repo worktree add --detach $WT HEAD >/dev/null 2>&1 || exit 2
  trap 'if [ -n "${KEEP:-}" ]; then mkdir -p "$KEEP"; cp /tmp/trial-work-$$/found/*.tape "$KEEP"/ 2>/dev/null; fi; git -C /repo worktree remove --force $WT >/dev/null 2>&1; rm -rf $WT /tmp/trial-work-$$' EXIT
  git -C $WT apply "$P" || { echo "patch does not apply"; exit 2; }
  export VERIF_REPO=$WT VERIF_WORK=/tmp/trial-work-$$ VERIF_EVIDENCE_DIR=/tmp/trial-work-$$/evidence
fi
for pr in "$@"; do
  s=$(date +%s)
  out=$(./check $pr $TIER 2>&1); rc=$?
  echo "== $(basename $(dirname $P)) $pr $TIER rc=$rc $(( $(date +%s) - s ))s"; echo "$out" | grep -E "VIOLATION|detail:|HARNESS|BUILD-ERROR|FLAKY|GENERATOR-GAP" | cut -c1-400 | head -6; echo "$out" | tail -1
done
