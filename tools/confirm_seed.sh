#!/bin/bash
# confirm_seed.sh <dir with patch.diff demo.c build.sh> : confirm (in a scratch worktree outside /repo and /verif) that
#  (1) the demo passes on the unchanged tree, (2) the patch applies and compiles, (3) the existing suite passes with it, (4) the demo fails with it.
set -u
D=$(readlink -f "$1"); WT=/tmp/confirm-$$-$(basename "$D")
git -C /repo worktree add --detach "$WT" HEAD >/dev/null 2>&1 || { echo "worktree failed"; exit 2; }
cleanup() { git -C /repo worktree remove --force "$WT" >/dev/null 2>&1; rm -rf "$WT"; }
trap cleanup EXIT
mkdir -p "$WT/out"; cp "$D"/demo.c "$D"/build.sh "$WT/out/" 2>/dev/null; cp "$D"/*.h "$WT/out/" 2>/dev/null
cd "$WT/out"
bash ./build.sh "$WT" >build0.log 2>&1 || { echo "RESULT demo build failed on clean tree"; tail -5 build0.log; exit 3; }
timeout 900 ./demo >demo0.log 2>&1; r0=$?
git -C "$WT" apply "$D/patch.diff" || { echo "RESULT patch does not apply"; exit 3; }
rm -f demo; bash ./build.sh "$WT" >build1.log 2>&1 || { echo "RESULT demo build failed on patched tree"; tail -5 build1.log; exit 3; }
timeout 900 ./demo >demo1.log 2>&1; r1=$?
cmake -G Ninja -S "$WT" -B "$WT/_build" -DBUILD_TESTING=ON -DCMAKE_BUILD_TYPE=RelWithDebInfo -DCMAKE_C_FLAGS=-Wno-error >cmake.log 2>&1 && cmake --build "$WT/_build" >>cmake.log 2>&1
rb=$?
ctest --test-dir "$WT/_build" -j8 --timeout 900 >ctest.log 2>&1; rt=$?
echo "RESULT demo_clean=$r0 demo_patched=$r1 build=$rb suite=$rt"
tail -3 demo1.log | cut -c1-300
if [ $r0 -eq 0 ] && [ $r1 -ne 0 ] && [ $rb -eq 0 ] && [ $rt -eq 0 ]; then echo CONFIRMED; exit 0; else echo NOT-CONFIRMED; exit 1; fi
