#!/bin/bash
# eval_seed.sh <PROP> <tag> [extra checks...] : confirm, import and try both changes an agent left in /tmp/seed/<PROP>-<tag>/out
P=$1; TAG=$2; shift 2; cd /verif
for m in m1 m2; do
  src=/tmp/seed/$P-$TAG/out/$m; id=$P-$TAG$m
  [ -f $src/patch.diff ] || { echo "$id: no patch"; continue; }
  res=$(tools/confirm_seed.sh $src 2>&1 | tail -1)
  echo "$id confirm: $res"
  [ "$res" = CONFIRMED ] || continue
  python3 tools/import_seed.py $src $id >/dev/null
  for c in $P "$@"; do VERIF_JOBS=${VERIF_JOBS:-8} tools/try_seed.sh seeded/$id/patch.diff quick $c 2>&1 | grep -E "^==|VIOLATION|detail|patch does not" | cut -c1-330 | head -3; done
done
