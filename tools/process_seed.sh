#!/bin/bash
# process_seed.sh <PID> <tag> [extra checks...] : confirm both changes of a seed agent, import the confirmed ones as seeded/<PID>-<tag>{1,2},
# run the property's quick check against each (scratch worktree), record the outcome in /tmp/seedlogs/<PID>-<tag>.log
P=$1; T=$2; shift 2
mkdir -p /tmp/seedlogs; L=/tmp/seedlogs/$P-$T.log; : > $L
for m in 1 2; do
  D=/tmp/seed/$P-$T/out/m$m
  [ -f $D/patch.diff ] || { echo "m$m: no patch" >> $L; continue; }
  if /verif/tools/confirm_seed.sh $D >> $L 2>&1; then
    python3 /verif/tools/import_seed.py $D $P-$T$m >> $L 2>&1
    /verif/tools/try_seed.sh /verif/seeded/$P-$T$m/patch.diff quick $P "$@" >> $L 2>&1
  else
    echo "m$m NOT CONFIRMED" >> $L
  fi
done
echo DONE >> $L
