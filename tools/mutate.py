#!/usr/bin/env python3
"""mutate.py <file-in-repo> <checks,comma> [--n N] [--seed S] [--lines A-B] [--par P] [--jobs J] [--tier quick] [--out file.jsonl]

Development aid (sensitivity of the checks): first-order mutants of one library source file, each run against the named checks in a scratch
copy of /repo (never /repo itself).  A mutant is KILLED by the first check that exits 1 with a VIOLATION line; SURVIVED if every named check
stays green.  Operators: relational boundary (< <=, > >=), negation (== !=), && ||, + -, constant +-1, statement deletion (simple
assignment / call lines).  Mutants that do not compile are skipped.  Results are appended to the --out file (default
/verif/mutation/<file>.jsonl), one JSON object per mutant."""
import hashlib, json, os, random, re, shutil, subprocess, sys, time
from concurrent.futures import ThreadPoolExecutor
V = os.path.dirname(os.path.dirname(os.path.abspath(__file__)))
REPO = os.environ.get("VERIF_REPO", "/repo")


def arg(name, default=None):
    if name in sys.argv:
        return sys.argv[sys.argv.index(name) + 1]
    return default


def mutants_of(lines, lo, hi):
    out = []
    incomment = False
    for i, ln in enumerate(lines):
        s = ln.strip()
        if incomment:
            if "*/" in s:
                incomment = False
            continue
        if s.startswith("/*") and "*/" not in s:
            incomment = True
            continue
        if i + 1 < lo or i + 1 > hi:
            continue
        if not s or s.startswith("#") or s.startswith("/*") or s.startswith("*") or s.startswith("//"):
            continue
        code = ln.split("/*")[0]
        if '"' in code:
            continue
        def sub(pat, rep, desc):
            for m in re.finditer(pat, code):
                new = code[:m.start()] + m.expand(rep) + code[m.end():] + ln[len(code):]
                if new != ln:
                    out.append((i, desc + " @col%d" % m.start(), new))
        sub(r"(?<![<>=!\-])<(?![<=])", "<=", "< to <=")
        sub(r"(?<![<>=!])<=(?!=)", "<", "<= to <")
        sub(r"(?<![<>=!\-])>(?![>=])", ">=", "> to >=")
        sub(r"(?<![<>=!])>=(?!=)", ">", ">= to >")
        sub(r"==", "!=", "== to !=")
        sub(r"!=", "==", "!= to ==")
        sub(r"&&", "||", "&& to ||")
        sub(r"\|\|", "&&", "|| to &&")
        sub(r"(?<=[\w\)\]])\s*\+\s*(?=[\w\(])(?!\+)", "-", "+ to -")
        sub(r"(?<=[\w\)\]])\s*-\s*(?=[\w\(])(?![->])", "+", "- to +")
        for m in re.finditer(r"(?<![\w.])(\d+)(?![\w.])", code):
            v = int(m.group(1))
            for d in (1, -1):
                if v + d < 0:
                    continue
                new = code[:m.start()] + str(v + d) + code[m.end():] + ln[len(code):]
                out.append((i, "const %d to %d @col%d" % (v, v + d, m.start()), new))
        if re.match(r"^\s*[\w\->\.\[\]\*\(\)& ]+(=|\+=|-=|\+\+|--)[^=].*;\s*$", code) and not re.match(r"^\s*(int|long|float|double|char|ogg_int64_t|ogg_page|ogg_packet|static|const|unsigned|vorbis_\w+|return|for|if|while)\b", code):
            out.append((i, "delete statement", re.match(r"^\s*", ln).group(0) + ";" + "\n"))
        elif re.match(r"^\s*[\w]+\(.*\);\s*$", code) and not re.match(r"^\s*(return|if|for|while|switch)\b", code):
            out.append((i, "delete call", re.match(r"^\s*", ln).group(0) + ";" + "\n"))
    return out


def main():
    rel = sys.argv[1]
    checks = sys.argv[2].split(",")
    n = int(arg("--n", "40")); seed = int(arg("--seed", "1")); par = int(arg("--par", "4")); jobs = arg("--jobs", "4"); tier = arg("--tier", "quick")
    lo, hi = 1, 10 ** 9
    if arg("--lines"):
        lo, hi = map(int, arg("--lines").split("-"))
    outp = arg("--out", os.path.join(V, "mutation", os.path.basename(rel) + ".jsonl"))
    os.makedirs(os.path.dirname(outp), exist_ok=True)
    src = open(os.path.join(REPO, rel)).readlines()
    allm = mutants_of(src, lo, hi)
    done = set()
    if os.path.exists(outp):
        for l in open(outp):
            try:
                done.add(json.loads(l)["key"])
            except Exception:
                pass
    rnd = random.Random(seed)
    rnd.shuffle(allm)
    pick = []
    for m in allm:
        key = hashlib.sha1(("%s:%d:%s:%s" % (rel, m[0], m[1], src[m[0]])).encode()).hexdigest()[:12]
        if key in done:
            continue
        pick.append((key, m))
        if len(pick) >= n:
            break
    print("%d candidate mutants in %s lines %d-%d; running %d" % (len(allm), rel, lo, min(hi, len(src)), len(pick)), flush=True)
    base = "/tmp/mut-%d" % os.getpid()
    os.makedirs(base, exist_ok=True)

    def run(item):
        key, (li, desc, new) = item
        d = os.path.join(base, key)
        shutil.rmtree(d, ignore_errors=True)
        os.makedirs(d)
        for sub in ("lib", "include"):
            subprocess.run(["cp", "-al", os.path.join(REPO, sub), os.path.join(d, sub)], check=True)
        tgt = os.path.join(d, rel)
        os.unlink(tgt)
        lines = list(src); lines[li] = new
        open(tgt, "w").writelines(lines)
        rec = dict(key=key, file=rel, line=li + 1, op=desc, old=src[li].rstrip("\n"), new=new.rstrip("\n"), checks=checks, tier=tier)
        r = subprocess.run(["gcc", "-fsyntax-only", "-w", "-I" + os.path.join(d, "include"), "-I" + os.path.join(d, "lib"), tgt], stdout=subprocess.PIPE, stderr=subprocess.STDOUT)
        if r.returncode != 0:
            rec["result"] = "nocompile"
        else:
            work = os.path.join(d, "work")
            os.makedirs(work)
            if os.path.isdir(os.path.join(V, "work", "obj")):
                subprocess.run(["cp", "-al", os.path.join(V, "work", "obj"), os.path.join(work, "obj")])
            env = dict(os.environ, VERIF_REPO=d, VERIF_WORK=work, VERIF_EVIDENCE_DIR=os.path.join(work, "evidence"), VERIF_JOBS=jobs, VERIF_FIRST_FAIL="1")
            rec["result"] = "survived"; rec["runs"] = []
            for c in checks:
                t0 = time.time()
                rr = subprocess.run([os.path.join(V, "check"), c, tier], stdout=subprocess.PIPE, stderr=subprocess.STDOUT, text=True, env=env)
                det = [l.strip()[:300] for l in rr.stdout.splitlines() if l.strip().startswith("detail:")]
                rec["runs"].append(dict(check=c, rc=rr.returncode, seconds=int(time.time() - t0), detail=det[:1], tail=rr.stdout.strip().splitlines()[-1:] ))
                if rr.returncode == 1 and "VIOLATION" in rr.stdout:
                    rec["result"] = "killed"; rec["killed_by"] = c
                    break
                if rr.returncode not in (0, 1):
                    rec["result"] = "error"; rec["error"] = rr.stdout[-600:]
                    break
        shutil.rmtree(d, ignore_errors=True)
        with open(outp, "a") as f:
            f.write(json.dumps(rec) + "\n")
        print("%-9s %s:%d %-28s | %s -> %s" % (rec["result"] + ("/" + rec.get("killed_by", "") if rec.get("killed_by") else ""), os.path.basename(rel), li + 1, desc, src[li].strip()[:60], new.strip()[:60]), flush=True)
        return rec
    with ThreadPoolExecutor(par) as ex:
        res = list(ex.map(run, pick))
    shutil.rmtree(base, ignore_errors=True)
    k = sum(1 for r in res if r["result"] == "killed"); s = sum(1 for r in res if r["result"] == "survived")
    print("killed %d, survived %d, other %d" % (k, s, len(res) - k - s))


main()
