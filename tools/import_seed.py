#!/usr/bin/env python3
"""import_seed.py <src dir> <id> : copy a confirmed seeded change into /verif/seeded/<id>/ and extend meta.json."""
import sys, os, json, shutil
src, sid = sys.argv[1], sys.argv[2]
dst = os.path.join(os.path.dirname(os.path.abspath(__file__)), "..", "seeded", sid)
os.makedirs(dst, exist_ok=True)
for f in os.listdir(src):
    if f in ("demo",) or f.endswith(".log") or f.endswith(".o"): continue
    p = os.path.join(src, f)
    if os.path.isfile(p) and os.path.getsize(p) < 400000: shutil.copy(p, dst)
mp = os.path.join(dst, "meta.json")
try: meta = json.load(open(mp))
except Exception: meta = {}
meta["id"] = sid
meta["confirmed_by_me"] = "tools/confirm_seed.sh in a scratch worktree: demo exits 0 on the unchanged tree and non-zero with the patch; cmake build + ctest (528-case suite binary) pass with the patch"
meta.setdefault("detected_by", {})
json.dump(meta, open(mp, "w"), indent=1)
print("imported", sid)
