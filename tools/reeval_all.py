#!/usr/bin/env python3
"""reeval_all.py [tier] [id-glob...] : run every seeded change (seeded/<id>/patch.diff) against the check of the property it targets, in a
scratch worktree (tools/try_seed.sh), and record the outcome in seeded/<id>/meta.json under "detected_by" / "last_eval".
Prints one line per change; exit 1 if any change is missed."""
import fnmatch, glob, json, os, re, subprocess, sys, time
V = os.path.dirname(os.path.dirname(os.path.abspath(__file__)))
tier = sys.argv[1] if len(sys.argv) > 1 else "quick"
pats = sys.argv[2:] or ["*"]
missed = []
for d in sorted(glob.glob(os.path.join(V, "seeded", "*"))):
    sid = os.path.basename(d)
    if not any(fnmatch.fnmatch(sid, p) for p in pats):
        continue
    mp = os.path.join(d, "meta.json")
    meta = json.load(open(mp))
    prop = meta.get("property") or sid.split("-")[0]
    t0 = time.time()
    r = subprocess.run([os.path.join(V, "tools", "try_seed.sh"), os.path.join(d, "patch.diff"), tier, prop], stdout=subprocess.PIPE, stderr=subprocess.STDOUT, text=True)
    out = r.stdout
    m = re.search(r"== \S+ (\S+) (\S+) rc=(\d+) (\d+)s", out)
    rc = int(m.group(3)) if m else -1
    det = [ln.strip() for ln in out.splitlines() if ln.strip().startswith("detail:")]
    nviol = len(re.findall(r"^VIOLATION", out, re.M))
    summary = re.findall(r"^%s %s: .*$" % (prop, tier), out, re.M)
    caught = rc == 1 and nviol > 0
    ev = {"check": prop, "tier": tier, "caught": caught, "violations": nviol, "seconds": int(time.time() - t0),
          "first_detail": (det[0][8:308] if det else None), "summary": summary[-1] if summary else None}
    if not isinstance(meta.get("detected_by"), dict):
        if meta.get("detected_by"):
            meta["demonstration"] = meta["detected_by"]
        meta["detected_by"] = {}
    if caught:
        meta["detected_by"].setdefault(prop, tier)
    meta["last_eval"] = ev
    json.dump(meta, open(mp, "w"), indent=1)
    print("%-9s %-4s %-8s %s %4ds  %s" % (sid, prop, tier, "CAUGHT" if caught else ("MISSED rc=%d" % rc), ev["seconds"], (ev["first_detail"] or "")[:140]), flush=True)
    if not caught:
        missed.append(sid)
print("missed: %s" % (", ".join(missed) or "none"))
sys.exit(1 if missed else 0)
