#!/usr/bin/env python3
"""Print the prompt given to an independent sub-agent that plants a property-breaking change (nothing from /verif is shown to it)."""
import json, sys, os
pid = sys.argv[1]; tag = sys.argv[2] if len(sys.argv) > 2 else "a"
hint = sys.argv[3] if len(sys.argv) > 3 else ""
props = {json.loads(l)["id"]: json.loads(l) for l in open(os.path.join(os.path.dirname(os.path.abspath(__file__)), "..", "properties.jsonl"))}
p = props[pid]
wt = "/tmp/seed/%s-%s" % (pid, tag)
print(f"""You are working on a scratch git worktree of xiph/vorbis (libvorbis: the reference C implementation of the Ogg Vorbis codec: encoder, decoder and the vorbisfile library) at {wt}. Work ONLY inside {wt} (and {wt}/out for your deliverables). Never read or write /repo or /verif. There is no network.

This is a mutation-seeding exercise for evaluating a verification tool: I need a realistic, subtle BUG planted in the library that breaks the following semantic property while the code still compiles and the existing test suite still passes.

PROPERTY {pid}: {p['title']}
Statement: {p['statement']}
Quantified over: {p['quantifier']['text']}
Code it is anchored in: {', '.join(p['anchors'].get('files', []))}

What I need from you: TWO different changes (call them m1 and m2, at different sites / different mechanisms), each of which:
 1. is a small edit to library source under {wt}/lib or {wt}/include (the kind of slip a developer could make: off-by-one, wrong variable or index, a dropped or reordered statement, a wrong comparison, a stale field not updated, a boundary case mishandled);
 2. still compiles, and the existing test suite still passes with it. Build and test with:
      cmake -G Ninja -S {wt} -B {wt}/_build -DBUILD_TESTING=ON -DCMAKE_BUILD_TYPE=RelWithDebInfo -DCMAKE_C_FLAGS=-Wno-error && cmake --build {wt}/_build && ctest --test-dir {wt}/_build -j8 --timeout 900
    (system libogg is installed: link with -logg);
 3. breaks the property above, but needs something SPECIFIC to manifest - e.g. a multi-step sequence of API calls, an unusual but valid input (particular length, channel count, block size, page layout, chained stream, boundary position), a fault at a particular point, or two cooperating sites that each look fine alone. Do NOT make a change that ordinary use (encode a file, decode it from the start) would expose at once, and do not make a change that crashes on every input.{(' ' + hint) if hint else ''}
 4. comes with a demonstration: a small self-contained C program (it may generate its own input by calling the encoder; it can compile the library sources directly, e.g. `cc -I{wt}/include -I{wt}/lib demo.c {wt}/lib/{{all .c except psytune.c tone.c barkmel.c misc.c}} -logg -lm`) that exits 0 on the UNCHANGED tree and exits non-zero (printing what went wrong) with your change applied. Confirm both outcomes yourself.

Deliverables, for each of m1 and m2, in {wt}/out/m1/ and {wt}/out/m2/:
  - patch.diff : `git diff` of the library change only (must apply with `git apply` to a clean checkout of the same commit);
  - demo.c (+ build.sh that builds it against a given source tree path passed as $1 and writes ./demo);
  - meta.json : {{"property": "{pid}", "summary": "...what was changed...", "needs": "...what is needed for it to manifest...", "ran": ["commands you ran and their outcomes"]}}.
When done, restore the worktree's lib/ and include/ to the unchanged state (git checkout -- lib include) and delete {wt}/_build. Do not commit anything. In your final message, summarise both changes in a few lines each (site, mechanism, trigger), and state whether the existing suite passed with each.""")
